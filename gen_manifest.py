#!/usr/bin/env python3
"""Generates MANIFEST.json from the table below (single source of truth for the checks)."""
import json

BUILT = {
 # id: (engine, category, technique, text, note, design_ref)
 "C01": ("engine-a", "exploration", "model-based stateful property testing (proptest), shadow map oracle",
         "Generated op histories against a shadow map of every handed-out range, checked after every step, over the full configuration space; shrinks to a minimal history. Exploration: finds violations, proves nothing about unexplored histories.",
         "verif hooks trusted (transparent atomics, raw free-list walk); lifetime-extended borrowed handles dropped before their arena value", "5/C01"),
 "C02": ("engine-b", "exploration", "controlled-scheduler (baton) concurrency testing over the real sync::Arena with generated programs and schedules; shadow map + every-arena-write-misses-live-ranges oracle",
         "2-4 (5 in the nested-removal-window program family) real threads run the real lock-free code one atomic access at a time under a generated, shrinkable schedule (uniform, bursty, one long pre-emption, thread 0 first, forced pre-emption inside the mark->unlink window) from generated free-list shapes; requests sized relative to the largest segment or to the segment at a generated list position; ranges checked at every return, every arena write event (atomic or zeroing) checked against all live ranges, bytes verified at release and at the end; forged node words as payloads.",
         "interleavings at the granularity of the crate's atomic accesses; sequentially consistent executions only", "4, 5/C02"),
 "C03": ("engine-a", "exploration", "model-based stateful property testing (proptest), capacity/alignment predicates over a 40-type table; 1/6 of the cases under the controlled scheduler (Engine B)",
         "Every successful allocation in generated histories is checked for the stated capacity, offset alignment and address alignment, including recycled segments, odd cursor residues and zero-size requests on full arenas (5/6 Engine A histories); the same capacity / offset law is evaluated at every allocation return of 2-4 threads sharing one sync::Arena under a generated schedule (1/6 Engine B programs), so that compare-exchange retries after another thread moved the cursor are covered.",
         "same as C01", "5/C03"),
 "C04": ("engine-a", "exploration", "boundary-value stateful property testing under checked and unchecked builds, supervised worker processes",
         "7/8 of the cases: boundary-dense huge sizes on every reachable state (histories include truncate and map_copy sessions; where capacity() reports more than a truncate left, the request that fits the report but not the memory is made and must stay inside the memory), same seeds under overflow-checked and unchecked builds; 1/8: Engine B programs on a shared arena - exhausted (a returning, in particular a failing, call must not leave a segment it marked behind) or with fresh space left and requests that cannot fit (u32::MAX-k, u32::MAX-allocated+d, capacity+d, remaining+d) racing small ones (every range returned meanwhile must lie in the data area and be disjoint from every live range); panics are caught, signals are caught by the supervisor and minimised by delta debugging in child processes. The thorough tier adds a coverage-guided stage: the same interpreter as a libFuzzer target (cargo +nightly fuzz, AddressSanitizer, 16 jobs), so that any access outside the arena's heap block is a crash.",
         "out-of-arena accesses are seen through consequences (signal, corrupted neighbour) in the quick tier", "5/C04"),
 "C05": ("engine-a", "exploration", "stateful property testing with close/reopen steps, state-before-close = state-after-open relation",
         "Histories (incl. clear / rewind / discard_freelist) on real files cut by drop+reopen in the four open modes and their *_with_path_builder forms with same/larger/absent capacity, read-only reopens with generated leftover write flags; state tuple, free list and all handed-out bytes compared across each reopen; shadow map carried over so later allocations are checked against pre-close live ranges.",
         "tmpfs files; durability (sync_all) not observable in-process", "5/C05"),
 "C06": ("engine-a", "fault_enumeration", "crash-point enumeration: memory() snapshot before every atomic access of every operation (verif hook), the file itself at every operation boundary of a file-backed arena, each reopened with map_mut and driven by a generated post-crash history",
         "One generated history (allocation / release traffic, discard_freelist, clear, rewind, increase_discarded, truncate on unsync arenas) is executed once while every atomic step is recorded as a crash point (copy of memory() = what a MAP_SHARED file holds at that instant). quick evaluates <= 32 points per history (all steps of one free-list operation + a sample), thorough all of them: reopen, cursor range, pre-crash live bytes, then a generated post-crash history with the pre-crash live ranges in the shadow map and a no-progress budget for termination.",
         "crash = page cache at that instant (the statement's model); Vec+unify memory() stands for the file bytes (equivalence checked by C16; for the file-backed share the boundary snapshots are read from the file through the file system)", "5/C06"),
 "C07": ("engine-b", "exploration", "controlled-scheduler concurrency testing with a no-progress (all threads stalled) detector as bounded safety surrogate for liveness",
         "Same engine as C02 with threads that keep allocations forever or finish early; violation iff every unfinished thread has re-examined an unchanging state for more than L scheduling points (then no call can ever return). Starvation under an infinite fair schedule is out of reach and counted as inconclusive when a per-operation budget trips.",
         "liveness is decided through a bounded safety surrogate; fair round-robin fallback schedule", "4.3, 5/C07"),
 "C08": ("engine-a", "exploration", "stateful property testing with dirty-fill owners, all-zero predicate at alloc_bytes return",
         "Every owner dirties its range; every alloc_bytes/alloc_bytes_owned return is checked byte-for-byte for zero across fresh, rewound, top-released, recycled and reopened space, incl. a rare class of large arenas with buffers of tens of pages (5/6 Engine A histories) and across ranges recycled between threads under a generated schedule (1/6 Engine B programs).",
         "same as C01", "5/C08"),
 "C09": ("file-engine", "exploration", "mutation-based property testing of every open variant against a field-level validity oracle; byte-for-byte file comparison; read-only op sessions; supervised worker processes",
         "A valid arena file from a generated history (with stale bytes above the cursor) is mutated (identification bytes, truncation, arbitrary replacement, wrong expected options; in one case in four on top of the crash state of the free list) and opened through all eight variants (map_mut / map_copy / map / map_copy_read_only and their *_with_path_builder forms), read-only variants also with any combination of truncate / append / create / create_new / write left set on the Options; refused opens must be refused exactly when the decoded fields demand it and must leave the file prefix identical. Read-only sessions run generated sequences over the safe mutating API: ReadOnly / documented panic / unchanged state, never a signal, file identical afterwards.",
         "for writable opens with_truncate(true), create_new on an existing path and remove_on_drop(true) are excluded (the caller asked for the change / the OS refuses first / documented deletion)", "5/C09"),
 "C10": ("engine-a", "exploration", "stateful property testing, free-list snapshot invariants + policy predicate on the serving node",
         "After every step the raw free-list snapshot is checked for well-formedness and ordering; every allocation that fresh space cannot satisfy is checked against the Optimistic/Pessimistic/None policy and the remainder rule.",
         "snapshot accessor is a raw bounded walk added under the verif feature", "5/C10"),
 "C11": ("engine-a", "exploration", "differential testing: one generated history on sync::Arena and unsync::Arena, per-step observation tuples compared",
         "The same generated config and single-threaded history (whole trait surface incl. rewind/clear/set_minimum_segment_size/increase_discarded/discard_freelist) is run on both flavours; result kinds, ranges, counters and free-list snapshots must agree after every step; one-sided panics or oracle failures are violations.",
         "memory() bytes are not compared (not in the statement; see DESIGN.md section 9)", "5/C11"),
 "C12": ("engine-b", "exploration", "controlled-scheduler concurrency testing with a FastTrack-style vector-clock race detector fed by the orderings the code passes to its atomics",
         "Programs with cross-thread hand-over of recycled ranges, owned buffers sent between threads, arena clones dropped on other threads, and a program family that nests removal windows on neighbouring nodes of one list (up to 5 threads, every marker pre-empted after its mark, either the latest marker only or all of them at once); happens-before is computed from the actual Ordering arguments reported by the hook; any unordered pair of accesses to a common byte with a non-atomic side is a violation.",
         "judged on sequentially consistent interleavings; SeqCst treated as AcqRel", "4.4, 5/C12"),
 "C13": ("engine-a", "exploration", "stateful property testing (release-exactly-once predicates, drop counters, refs() model, unmount event counter) + controlled-scheduler clone/drop interleavings with a reference-count oracle",
         "Clone/alloc/to-owned/detach/drop in any order incl. original first, with a generated teardown order; per-drop state delta must equal exactly one dealloc of the buffer extent; values of drop-counting types (sized, and zero-sized guard types) dropped exactly once by the time their non-detached handle is gone; Unmount event exactly once at the last holder; when the last holder of a file-backed arena is an owned handle its release is read back from the file. One case in six is a multi-threaded Engine B program (clones, owned buffers sent between threads) in which every access to the reference count must observe the model's number of live arena values and the memory is released once, by the last holder, under the scheduler.",
         "Unmount event at the top of Memory::unmount stands for the release of the backing store", "5/C13"),
 "C14": ("buffer-engine", "exploration", "property testing of every buffer writer/reader against a reference encoder with whole-arena before/after snapshots and canary neighbours; round-trip relations",
         "One generated buffer (fresh / recycled / aligned at odd cursor, borrowed / owned, capacity 0..96, any fill level) between canary neighbours; 1..5 generated calls over 12 integer types x 3 byte orders, LEB128, slices (put_slice / write with lengths 0..100 and 2^32 + k, get_slice / get_slice_mut), the *_unchecked twins inside their contract, set_len, align_to/put/put_aligned over the type table plus two over-aligned types on arenas with maximum alignment 16 / 32 / 64, a third of the unsync cases on an arena that was resized first; out-of-buffer bytes compared byte for byte after every call; checked and unchecked builds.",
         "put::<T> is only called at positions aligned for T (its documented precondition; ZSTs are kept aligned too)", "5/C14"),
 "C15": ("reader-engine", "exploration", "property testing of arena-level readers against a reference decode of memory(), offsets dense around allocated() and at usize extremes, checked and unchecked builds",
         "Arena filled with continuation-heavy content and rewound so that non-zero bytes lie above allocated(); every reader at generated offsets, on a quarter of the unsync cases after a truncate to a generated size, one case in eight in a file mapped at an offset of one or two pages (one case in 40: the arena lives in a file and is reopened with a capacity option below the stored cursor - refused, or consistent); fixed-width results compared with a reference decode iff the value lies below the mark (u128 arithmetic), varint results compared with the decoder applied to exactly the bytes below the mark.",
         "const_varint (the crate rarena delegates to) is the varint reference for the slice; an independent LEB128 decoder cross-checks unsigned values", "5/C15"),
 "C16": ("engine-a", "exploration", "property testing of constructors against Options::data_offset*, accessor table, and 3-way differential (Vec/anon/file, unified layout) with memory() hashes per step",
         "Constructor cases around the prefix size for reserved 0..=4096 (and u32::MAX-k, which must be refused cleanly) on all backends and both flavours, accessor table and first-allocation offset; the accessor table, data_offset() and the remaining law are re-checked after every step for every live arena value (clones, reopened files); then one history in lock-step on Vec, anonymous-mmap and file arenas with byte-identical memory() after every step - every byte, header padding included; a sixteenth of the cases runs under an unoptimised build of the crate, where by-value copies carry what the stack held.",
         "Options::data_offset / data_offset_unify are the reference, as the statement says", "5/C16"),
 "C17": ("engine-a", "exploration", "stateful property testing with an i128 reference clamp for rewind; metamorphic relation cleared arena == fresh arena under the same continuation; checked and unchecked builds",
         "Boundary-dense ArenaPosition values in every reachable state against an i128 reference, in histories that include truncate on unsync arenas (read-only reopened arenas included: there rewind must change nothing and must not crash); clear followed by a generated continuation also run on a fresh arena, observation streams and the bytes in front of the data area (identification block, padding, header) compared.",
         "rewind/clear contracts respected by the harness (handles above the new cursor forgotten, free list reaching above it discarded first)", "5/C17"),
 "C18": ("engine-a", "exploration", "stateful property testing on unsync::Arena with truncate steps, before/after state relation",
         "truncate(n) for n around allocated/capacity and up to 4x capacity on the three backends after histories with free list and detached live data, incl. file arenas reopened writable or copy-on-write (also through a descriptor without write access, where a growing truncate is refused by the operating system and must change nothing), and about 30 cases per quick run on arenas of 1 GiB or more, where 4x capacity passes u32::MAX (there the call must fail and change nothing); capacity law, unchanged state and bytes, later fitting allocations must succeed.",
         "truncate only while refs()==1 and no handle object exists", "5/C18"),
 "C19": ("checksum-engine", "exploration", "property testing: chunked checksum == one-shot checksum by the same builder, with a position-sensitive second builder",
         "Allocated lengths hit exactly at k*page-2..k*page+2 for k<=3 plus random lengths, reserved 0..=64, three backends, all three free-list kinds with a released block in the middle of the fill (non-empty list inside the checksummed header), file cases optionally in a later read-only session; checksum(b) compared with b.checksum_one(allocated_memory()[reserved_bytes()..]) - both sides as the arena reports them - for Crc32 and a position-weighted sum that detects dropped/repeated/reordered chunks.",
         "page size is the host's (4096)", "5/C19"),
 "C20": ("engine-a", "exploration", "stateful property testing, per-step discarded() delta predicates against free-list snapshots",
         "Per-step accounting predicates for discarded(): monotone, increase_discarded over the whole u32 range (exact while the true sum fits in a u32, monotone beyond), None-release, too-small release never reused, discard_freelist sum/empty list.",
         "same as C01", "5/C20"),
}

ALL = ["C%02d" % i for i in range(1, 21)]

def main():
    checks = []
    for pid in ALL:
        if pid not in BUILT:
            continue
        eng, cat, tech, text, note, ref = BUILT[pid]
        checks.append({
            "property_id": pid,
            "quick_cmd": f"./run {pid} quick",
            "thorough_cmd": f"./run {pid} thorough",
            "evidence_file": f"/verif/evidence/{pid}.json",
            "replay_cmd_template": "./run replay {path}",
            "engine": eng,
            "level_claimed": {"category": cat, "text": text, "design_ref": "DESIGN.md section " + ref},
            "level_note": note,
            "technique": tech,
        })
    na = [{"property_id": p, "reason": "check not built yet in this session (planned per DESIGN.md section 5); not claimed until it runs"} for p in ALL if p not in BUILT]
    m = {
        "version": 1,
        "setup_cmd": "./run build",
        "hooks": {
            "guard": "cargo feature rarena-allocator/verif",
            "enable": "the harness crate depends on /repo/rarena-allocator with features [\"memmap\", \"verif\"]",
            "baseline_off_cmd": "cd /repo && cargo test --workspace --no-fail-fast --offline",
            "source_commits": ["8c6bdc3"],
            "add_only": True,
        },
        "engines": [
            {"name": "buffer-engine", "path": "/verif/harness/src/props/c14.rs", "serves_properties": ["C14"], "kind_free_text": "micro-case property engine for BytesRefMut/BytesMut writers and readers"},
            {"name": "reader-engine", "path": "/verif/harness/src/props/small.rs", "serves_properties": ["C15"], "kind_free_text": "micro-case property engine for the arena-level get_* readers"},
            {"name": "checksum-engine", "path": "/verif/harness/src/props/small.rs", "serves_properties": ["C19"], "kind_free_text": "micro-case property engine for Allocator::checksum"},
            {"name": "file-engine", "path": "/verif/harness/src/props/c09.rs", "serves_properties": ["C09"], "kind_free_text": "file mutator + read-only session engine on top of Engine A's file builder"},
            {"name": "engine-b", "path": "/verif/harness/src/engb.rs", "serves_properties": ["C02", "C03", "C04", "C07", "C08", "C12", "C13"], "kind_free_text": "controlled scheduler: real threads, real sync::Arena, baton passed at every atomic access (verif hook) following a generated schedule; shadow map, stall detector, vector-clock race detector"},
            {"name": "fuzz-hist", "path": "/verif/harness/fuzz/fuzz_targets/hist.rs", "serves_properties": ["C04"], "kind_free_text": "libFuzzer + AddressSanitizer target over the Engine A interpreter (structure-aware byte decoder in harness/src/fuzzdec.rs); thorough tier of C04"},
            {"name": "engine-a", "path": "/verif/harness/src/enga.rs", "serves_properties": [p for p in ALL if p in BUILT and BUILT[p][0] == "engine-a"], "kind_free_text": "single-threaded model-based history interpreter driven by proptest strategies; shadow map + free-list snapshot oracles; worker processes under a supervisor"},
        ],
        "checks": checks,
        "not_applicable": na,
        "notes": "All checks: ./run <id> <quick|thorough>; VERIF_SEED selects the PRNG seed (0 is remapped to 1). Exit 2 = infrastructure problem (never a verdict).",
    }
    json.dump(m, open("/verif/MANIFEST.json", "w"), indent=1)

main()
