#!/usr/bin/env python3
"""usage: tools/mk_seed_round.py <base-dir> <round> [Cxx ...]
Creates one scratch git worktree of /repo per property under <base-dir>/<Cxx> with SEED/PROPERTY.txt:
the property text (title, statement, quantifier, why tests cannot settle it, anchored files) followed by a
one-sentence description of every earlier seeded change for that property, so that the sub-agent picks a
different site. Nothing from /verif other than those sentences goes into the worktree.
Prints the prompt file path for each property (tools/seed_prompt.tmpl with @ID@ / @BASE@ substituted)."""
import json, os, subprocess, sys, glob, re

base, rnd = sys.argv[1], sys.argv[2]
ids = sys.argv[3:]
props = {}
for l in open('/verif/properties.jsonl'):
    p = json.loads(l)
    props[p['id']] = p
if not ids:
    ids = sorted(props)
os.makedirs(base, exist_ok=True)
tmpl = open(os.environ.get('SEED_TMPL', '/verif/tools/seed_prompt.tmpl')).read()
for pid in ids:
    p = props[pid]
    d = os.path.join(base, pid)
    if not os.path.isdir(d):
        subprocess.check_call(['git', '-C', '/repo', 'worktree', 'add', '--detach', '-q', d, 'HEAD'])
    os.makedirs(os.path.join(d, 'SEED'), exist_ok=True)
    earlier = []
    for m in sorted(glob.glob(f'/verif/seeded/*{pid}/meta.json')):
        try:
            s = json.load(open(m)).get('summary', '')
        except Exception:
            continue
        s = re.split(r'(?<=[.])\s', s.strip())[0]
        earlier.append(s[:400])
    with open(os.path.join(d, 'SEED', 'PROPERTY.txt'), 'w') as f:
        f.write(f"{pid}: {p['title']}\n\nStatement: {p['statement']}\n\nQuantifier: {p['quantifier']['text']}\n\n")
        f.write(f"Why the existing tests cannot settle it: {p['why_tests_cant']}\n\n")
        f.write("Anchored files: " + ", ".join(p['anchors']['files']) + "\n\n")
        f.write("Mechanisms the property rests on:\n")
        for mch in p['anchors'].get('mechanism', []):
            f.write(f" - {mch['name']} ({mch['where']})\n")
        f.write("\nEarlier changes already tried for this property (choose a different site AND a different mechanism):\n")
        for e in earlier:
            f.write(f" - {e}\n")
    pr = tmpl.replace('@BASE@', base).replace('@ID@', pid)
    with open(os.path.join(base, f'prompt-{pid}.txt'), 'w') as f:
        f.write(pr)
    print(os.path.join(base, f'prompt-{pid}.txt'))
