#!/bin/bash
# usage: tools/run_seeded.sh <dir-with-Cxx-subdirs> [Cxx ...]  -- for each <dir>/<Cxx>/patch.diff (or <dir>/<Cxx>/SEED/patch.diff):
# apply to /repo, run the owning property's quick check (plus any extra checks given in EXTRA="Cyy Czz"), revert.
set -u
base=$1; shift
ids="$*"; [ -z "$ids" ] && ids=$(ls "$base")
cd /repo || exit 2
if [ -n "$(git status --porcelain)" ]; then echo "/repo is dirty; commit or stash first" >&2; exit 2; fi
for id in $ids; do
  # patch-ported.diff: the same change re-made by hand on the current code, for the patches whose context a later
  # fix commit rewrote (the original patch.diff is kept as the sub-agent wrote it)
  p="$base/$id/patch-ported.diff"; [ -f "$p" ] || p="$base/$id/patch.diff"; [ -f "$p" ] || p="$base/$id/SEED/patch.diff"
  [ -f "$p" ] || continue
  # later fix commits moved the context of some older patches: fall back to a three-way apply
  if ! git apply "$p" 2>/dev/null; then
    if ! git apply --3way "$p" >/dev/null 2>&1; then git reset -q --hard HEAD; echo -e "$id\tAPPLY-FAILED"; continue; fi
    if ! cargo build -q -p rarena-allocator --features memmap --offline 2>/dev/null; then git reset -q --hard HEAD; echo -e "$id\tAPPLY-FAILED (does not compile after 3-way apply)"; continue; fi
  fi
  own=${id##*-}
  for prop in $own ${EXTRA:-}; do
    start=$(date +%s)
    out=$(cd /verif && RV_WATCHDOG_S=240 timeout 900 ./run "$prop" ${TIER:-quick} 2>&1); code=$?
    end=$(date +%s)
    sig=$(echo "$out" | grep -m1 "sig=" | sed 's/^ *//' | cut -c1-200)
    echo -e "$id\tcheck=$prop\texit=$code\t$((end-start))s\t$sig"
  done
  git reset -q --hard HEAD
  (cd /verif && git status --porcelain replays | grep '^??' | awk '{print $2}' | xargs -r rm -rf)
done
(cd /verif && git checkout -- evidence 2>/dev/null)
