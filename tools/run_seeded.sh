#!/bin/bash
# usage: tools/run_seeded.sh <dir-with-Cxx-subdirs> [Cxx ...]  -- for each <dir>/<Cxx>/patch.diff (or <dir>/<Cxx>/SEED/patch.diff):
# apply to /repo, run the owning property's quick check (plus any extra checks given in EXTRA="Cyy Czz"), revert.
set -u
base=$1; shift
ids="$*"; [ -z "$ids" ] && ids=$(ls "$base")
cd /repo || exit 2
if [ -n "$(git status --porcelain)" ]; then echo "/repo is dirty; commit or stash first" >&2; exit 2; fi
for id in $ids; do
  p="$base/$id/patch.diff"; [ -f "$p" ] || p="$base/$id/SEED/patch.diff"
  [ -f "$p" ] || continue
  if ! git apply "$p" 2>/dev/null; then echo -e "$id\tAPPLY-FAILED"; continue; fi
  own=${id##*-}
  for prop in $own ${EXTRA:-}; do
    start=$(date +%s)
    out=$(cd /verif && RV_WATCHDOG_S=240 timeout 900 ./run "$prop" ${TIER:-quick} 2>&1); code=$?
    end=$(date +%s)
    sig=$(echo "$out" | grep -m1 "sig=" | sed 's/^ *//' | cut -c1-200)
    echo -e "$id\tcheck=$prop\texit=$code\t$((end-start))s\t$sig"
  done
  git checkout -- .
  (cd /verif && git status --porcelain replays | grep '^??' | awk '{print $2}' | xargs -r rm -rf)
done
(cd /verif && git checkout -- evidence 2>/dev/null)
