#!/bin/bash
# usage: tools/verify_seed.sh Cxx   -- independent confirmation of a seeded change in /tmp/seed/Cxx
# (patch applies to clean HEAD, existing tests pass with it, demo fails with it and passes without it)
id=$1; d=${SEED_BASE:-/tmp/seed2}/$id
cd "$d" || exit 2
feat=$(python3 -c "import json;print('memmap,verif' if 'verif' in json.load(open('SEED/meta.json')).get('demo_cmd','') else 'memmap')")
git checkout -q -- rarena-allocator/src 2>/dev/null
mkdir -p SEED/aside; [ -f rarena-allocator/tests/seed_demo.rs ] || cp SEED/demo.rs rarena-allocator/tests/seed_demo.rs
# without the change
out0=$(timeout 300 cargo test -q -p rarena-allocator --features $feat --offline --test seed_demo 2>&1); c0=$?
git apply SEED/patch.diff || { echo "$id PATCH-DOES-NOT-APPLY"; exit 1; }
out1=$(timeout 300 cargo test -q -p rarena-allocator --features $feat --offline --test seed_demo 2>&1); c1=$?
mv rarena-allocator/tests/seed_demo.rs SEED/aside/
t=$(timeout 300 cargo test --workspace --no-fail-fast --offline 2>&1 | grep -E "^test result" | awk '{p+=$4; f+=$6} END {print p"/"f}')
t2=$(timeout 300 cargo test -p rarena-allocator --features memmap --offline --lib 2>&1 | grep -E "^test result" | awk '{p+=$4; f+=$6} END {print p"/"f}')
mv SEED/aside/seed_demo.rs rarena-allocator/tests/
echo "$id demo_without_change_exit=$c0 demo_with_change_exit=$c1 existing_tests=$t memmap_lib=$t2"
