#!/bin/bash
# usage: tools/run_mutants.sh [pattern]   -- applies each /verif/mutants/*.diff (or seeded/*/patch.diff with SEEDED=1)
# to /repo, checks that the repository's own tests still pass, runs the owning property's quick check,
# reverts. Results: /verif/mutants/RESULTS.tsv
set -u
cd /repo || exit 2
if [ -n "$(git status --porcelain)" ]; then echo "/repo is dirty; commit or stash first" >&2; exit 2; fi
OUT=/verif/mutants/RESULTS.tsv
pat="${1:-}"
[ -z "$pat" ] && : > "$OUT"
for d in /verif/mutants/*${pat}*.diff; do
  name=$(basename "$d" .diff); prop=${name%%-*}
  if ! git apply "$d" 2>/dev/null; then echo -e "$name\tAPPLY-FAILED" | tee -a "$OUT"; continue; fi
  if ! cargo build -q -p rarena-allocator --features memmap --offline 2>/dev/null; then echo -e "$name\tDOES-NOT-COMPILE" | tee -a "$OUT"; git checkout -- .; continue; fi
  t=$(timeout 180 cargo test --workspace --no-fail-fast --offline 2>&1 | grep -E "^test result" | awk '{p+=$4; f+=$6} END {print p"/"f}')
  start=$(date +%s)
  out=$(cd /verif && RV_WATCHDOG_S=240 timeout 600 ./run "$prop" quick 2>&1); code=$?
  end=$(date +%s)
  sig=$(echo "$out" | grep -m1 "sig=" | sed 's/^ *//' | cut -c1-160)
  echo -e "$name\ttests=$t\texit=$code\t$((end-start))s\t$sig" | tee -a "$OUT"
  git checkout -- .
  # remove replay files the mutant produced (they are not regressions of the real tree)
  (cd /verif && git status --porcelain replays | grep '^??' | awk '{print $2}' | xargs -r rm -rf)
done
(cd /verif && git checkout -- evidence 2>/dev/null)
