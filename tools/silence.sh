#!/bin/bash
# usage: tools/silence.sh <seed> [<seed> ...]   -- every quick check with each seed; prints only problems + a summary
cd /verif
for seed in "$@"; do
  bad=0
  for i in $(seq -w 1 20); do
    id=C$i
    out=$(VERIF_SEED=$seed RV_WATCHDOG_S=600 ./run $id quick 2>&1); code=$?
    if [ $code -ne 0 ] || echo "$out" | grep -q VIOLATION; then bad=$((bad+1)); echo "seed=$seed $id exit=$code"; echo "$out" | grep -E "VIOLATION|sig=|infra" | head -4 | cut -c1-300; fi
  done
  echo "seed=$seed done, problems=$bad"
done
git checkout -- evidence 2>/dev/null
