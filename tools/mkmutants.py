#!/usr/bin/env python3
"""Self-made sensitivity mutants: each is a (property, name, file, old, new) replacement applied to a
scratch worktree of /repo to produce /verif/mutants/<prop>-<name>.diff. They must compile."""
import subprocess, os, sys, shutil

WT = "/tmp/rv-mutwt"
S = "rarena-allocator/src/"
M = [
 # C01
 ("C01", "dealloc-top-ge", S+"unsync.rs", "    if header.allocated == offset + size {\n      header.allocated = offset;", "    if header.allocated >= offset + size {\n      header.allocated = offset;"),
 ("C01", "slow-path-handout-header", S+"unsync.rs", "    let mut allocated = Meta::new(self.ptr as _, segment_node.ptr_offset, memory_size);\n    allocated.ptr_offset = segment_node.data_offset;\n    allocated.ptr_size = size;\n    unsafe {\n      allocated.clear(self);\n    }\n    Ok(allocated)\n  }\n\n  /// It is like a pop", "    let mut allocated = Meta::new(self.ptr as _, segment_node.ptr_offset, memory_size);\n    allocated.ptr_offset = segment_node.data_offset + 8;\n    allocated.ptr_size = size;\n    unsafe {\n      allocated.clear(self);\n    }\n    Ok(allocated)\n  }\n\n  /// It is like a pop"),
 ("C01", "remainder-overlap", S+"sync.rs", "          let data_end_offset = segment_node.data_offset + size;\n          // check if the remaining is enough to allocate a new segment.\n          if self.validate_segment(data_end_offset, remaining) {\n            memory_size -= remaining;\n            // We have successfully remove the head node from the list.\n            // Then we can allocate the memory.\n            // give back the remaining memory to the free list.\n\n            // Safety: the `next + size` is in bounds, and `node_size - size` is also in bounds.\n            self.optimistic_dealloc(data_end_offset, remaining);", "          let data_end_offset = segment_node.data_offset + size;\n          // check if the remaining is enough to allocate a new segment.\n          if self.validate_segment(data_end_offset, remaining) {\n            memory_size -= remaining;\n            // We have successfully remove the head node from the list.\n            // Then we can allocate the memory.\n            // give back the remaining memory to the free list.\n\n            // Safety: the `next + size` is in bounds, and `node_size - size` is also in bounds.\n            self.optimistic_dealloc(data_end_offset - 8, remaining + 8);"),
 # C03
 ("C03", "pad-without-align", S+"unsync.rs", "    size + align - 1\n  }", "    let _ = align;\n    size\n  }"),
 ("C03", "zero-size-full-refused", S+"sync.rs", "    if size == 0 {\n      return Ok(None);\n    }\n    let header = self.header();\n    let mut allocated = header.allocated.load(Ordering::Acquire);\n\n    loop {", "    if size == 0 {\n      if self.remaining() == 0 {\n        return Err(Error::InsufficientSpace { requested: 0, available: 0 });\n      }\n      return Ok(None);\n    }\n    let header = self.header();\n    let mut allocated = header.allocated.load(Ordering::Acquire);\n\n    loop {"),
 # C04
 ("C04", "failed-alloc-bumps-discarded", S+"unsync.rs", "    // The larget segment does not have enough space to allocate, so just return err.\n    if size > head_node_size {", "    // The larget segment does not have enough space to allocate, so just return err.\n    if size > head_node_size {\n      self.header_mut().discarded += 1;"),
 ("C04", "extra-wrap", S+"sync.rs", "        .and_then(|aligned_offset| aligned_offset.checked_add(size))\n        .and_then(|want| want.checked_add(extra))", "        .map(|aligned_offset| aligned_offset.wrapping_add(size))\n        .map(|want| want.wrapping_add(extra))"),
 ("C04", "clear-one-past-capacity-asan-only", S+"lib.rs", "      core::ptr::write_bytes(ptr, 0, self.ptr_size as usize);", "      let past = (self.ptr_offset as usize + self.ptr_size as usize == arena.capacity()) as usize;\n      core::ptr::write_bytes(ptr, 0, self.ptr_size as usize + past);"),
 # C05
 ("C05", "reopen-zero-from-data-offset", S+"memory.rs", "          if cap > allocated {\n            ptr::write_bytes(ptr.add(allocated), 0, cap - allocated as usize);\n          }", "          if cap > allocated && allocated > data_offset + 64 {\n            ptr::write_bytes(ptr.add(allocated - 8), 0, cap - allocated as usize + 8);\n          } else if cap > allocated {\n            ptr::write_bytes(ptr.add(allocated), 0, cap - allocated as usize);\n          }"),
 ("C05", "ro-open-wrong-capacity", S+"memory.rs", "          cap: len as u32,\n          reserved,\n          flag: MemoryFlags::ON_DISK | MemoryFlags::MMAP,\n          backend: MemoryBackend::Mmap {", "          cap: (len as u32).saturating_sub((len % 7 == 0) as u32),\n          reserved,\n          flag: MemoryFlags::ON_DISK | MemoryFlags::MMAP,\n          backend: MemoryBackend::Mmap {"),
 # C06
 ("C06", "link-before-header", S+"sync.rs", "      segment_node.mark_inserting(next_node_offset);\n\n      match current.compare_exchange(\n        current_node_size_and_next_node_offset,\n        encode_segment_node(node_size, segment_node.ptr_offset),\n        Ordering::AcqRel,\n        Ordering::Relaxed,\n      ) {\n        Ok(_) => {\n          // linked: publish the real size.\n          segment_node.update_next_node(next_node_offset);\n\n          #[cfg(feature = \"tracing\")]\n          tracing::debug!(\n            \"create segment node ({} bytes) at {}, next segment {next_node_offset}\",\n            segment_node.data_size,\n            segment_node.ptr_offset\n          );\n\n          self.increase_discarded(segment_node.data_offset - segment_node.ptr_offset);\n          return true;\n        }\n        Err(current) => {\n          let (size, _) = decode_segment_node(current);\n          // the current is removed from the list, then we need to refind the position.\n          if size == REMOVED_SEGMENT_NODE {\n            // wait other thread to make progress.\n            backoff.snooze();\n          } else {\n            backoff.spin();\n          }\n        }\n      }\n    }\n  }\n\n  fn pessimistic_dealloc", "      match current.compare_exchange(\n        current_node_size_and_next_node_offset,\n        encode_segment_node(node_size, segment_node.ptr_offset),\n        Ordering::AcqRel,\n        Ordering::Relaxed,\n      ) {\n        Ok(_) => {\n          // linked: publish the real size.\n          segment_node.update_next_node(next_node_offset);\n\n          self.increase_discarded(segment_node.data_offset - segment_node.ptr_offset);\n          return true;\n        }\n        Err(current) => {\n          let (size, _) = decode_segment_node(current);\n          // the current is removed from the list, then we need to refind the position.\n          if size == REMOVED_SEGMENT_NODE {\n            // wait other thread to make progress.\n            backoff.snooze();\n          } else {\n            backoff.spin();\n          }\n        }\n      }\n    }\n  }\n\n  fn pessimistic_dealloc"),
 ("C06", "no-recovery-sweep", S+"memory.rs", "          (*header_ptr).recover_freelist(ptr, cap as u32);\n", "          let _ = (*header_ptr).load_allocated();\n"),
 # C07 / C02
 ("C07", "no-restore-after-failed-unlink", S+"sync.rs", "          next_node.store(next_node_val, Ordering::Release);\n", ""),
 ("C02", "skip-mark-cas", S+"sync.rs", "      // mark next node as removed\n      let removed_next = encode_segment_node(REMOVED_SEGMENT_NODE, next_next_node_offset);\n      if next_node\n        .compare_exchange(\n          next_node_val,\n          removed_next,\n          Ordering::AcqRel,\n          Ordering::Relaxed,\n        )\n        .is_err()\n      {\n        // wait other thread to make progress.\n        backoff.snooze();\n        continue;\n      }\n", "      let _ = next_node_val;\n"),
 ("C02", "cursor-load-store", S+"sync.rs", "      match header.allocated.compare_exchange_weak(\n        allocated,\n        want,\n        Ordering::SeqCst,\n        Ordering::Acquire,\n      ) {\n        Ok(offset) => {\n          #[cfg(feature = \"tracing\")]\n          tracing::debug!(\"allocate {} bytes at offset {} from memory\", size, offset);", "      header.allocated.store(want, Ordering::SeqCst);\n      match Ok::<u32, u32>(allocated) {\n        Ok(offset) => {\n          #[cfg(feature = \"tracing\")]\n          tracing::debug!(\"allocate {} bytes at offset {} from memory\", size, offset);"),
 # C08
 ("C08", "no-clear-optimistic", S+"unsync.rs", "    allocated.ptr_offset = segment_node.data_offset;\n    allocated.ptr_size = size;\n    unsafe {\n      allocated.clear(self);\n    }\n    Ok(allocated)\n  }\n\n  fn discard_freelist_in", "    allocated.ptr_offset = segment_node.data_offset;\n    allocated.ptr_size = size;\n    Ok(allocated)\n  }\n\n  fn discard_freelist_in"),
 ("C08", "no-clear-fastpath-sync", S+"sync.rs", "          let allocated = Meta::new(self.ptr as _, offset, size);\n          unsafe { allocated.clear(self) };\n          return Ok(Some(allocated));", "          let allocated = Meta::new(self.ptr as _, offset, size);\n          return Ok(Some(allocated));"),
 # C09
 ("C09", "sanity-skips-version", S+"lib.rs", "  if version != CURRENT_VERSION {\n    return Err(invalid_data(VersionMismatch::new(CURRENT_VERSION, version)));\n  }\n", "  let _ = version;\n"),
 ("C09", "ro-discard-unguarded", S+"unsync.rs", "  fn discard_freelist(&self) -> Result<u32, Error> {\n    if self.ro {\n      return Err(Error::ReadOnly);\n    }\n", "  fn discard_freelist(&self) -> Result<u32, Error> {\n    if self.ro && self.freelist == Freelist::None {\n      return Err(Error::ReadOnly);\n    }\n"),
 # C10
 ("C10", "optimistic-order-flip", S+"unsync.rs", "        .find_position(segment_node.data_size, |val, next_node_size| {\n          val >= next_node_size\n        });", "        .find_position(segment_node.data_size, |val, next_node_size| {\n          val > next_node_size + 8\n        });"),
 ("C10", "pessimistic-lt", S+"sync.rs", "        self.find_prev_and_next(size, |val, next_node_size| val <= next_node_size)", "        self.find_prev_and_next(size, |val, next_node_size| val < next_node_size)"),
 ("C10", "remainder-ignores-minseg", S+"unsync.rs", "    let available_bytes = size - segmented_node_size as u32;\n    if available_bytes < self.header().min_segment_size {\n      return false;\n    }\n\n    true", "    let available_bytes = size - segmented_node_size as u32;\n    if available_bytes + 12 < self.header().min_segment_size {\n      return false;\n    }\n\n    true"),
 # C11
 ("C11", "unsync-fit-lt", S+"unsync.rs", "      .checked_add(size)\n      .filter(|want| *want <= self.cap);\n    if let Some(want) = want {\n      let offset = header.allocated;", "      .checked_add(size)\n      .filter(|want| *want < self.cap);\n    if let Some(want) = want {\n      let offset = header.allocated;"),
 # C12
 ("C12", "relaxed-header-only", S+"sync.rs", "      .store(encode_segment_node(self.data_size, next), Ordering::Release);", "      .store(encode_segment_node(self.data_size, next), Ordering::Relaxed);"),
 ("C12", "relaxed-header-and-link", S+"sync.rs", ["      .store(encode_segment_node(self.data_size, next), Ordering::Release);", "        encode_segment_node(node_size, segment_node.ptr_offset),\n        Ordering::AcqRel,\n        Ordering::Relaxed,"], ["      .store(encode_segment_node(self.data_size, next), Ordering::Relaxed);", "        encode_segment_node(node_size, segment_node.ptr_offset),\n        Ordering::Relaxed,\n        Ordering::Relaxed,"]),
 ("C12", "relaxed-traversal-loads", S+"sync.rs", ["      let sentinel = header.sentinel.load(Ordering::Acquire);\n      let (sentinel_node_size, head_node_offset) = decode_segment_node(sentinel);\n\n      // free list is empty\n      if sentinel_node_size == SENTINEL_SEGMENT_NODE_SIZE\n        && head_node_offset == SENTINEL_SEGMENT_NODE_OFFSET\n      {\n        return Err(", "      let head_node_size_and_next_node_offset = head.load(Ordering::Acquire);\n      let (head_node_size, next_node_offset) =\n        decode_segment_node(head_node_size_and_next_node_offset);\n\n      if head_node_size == REMOVED_SEGMENT_NODE {\n        // the head node is marked as removed, wait other thread to make progress.\n        backoff.snooze();\n        continue;\n      }\n\n      // The larget"], ["      let sentinel = header.sentinel.load(Ordering::Relaxed);\n      let (sentinel_node_size, head_node_offset) = decode_segment_node(sentinel);\n\n      // free list is empty\n      if sentinel_node_size == SENTINEL_SEGMENT_NODE_SIZE\n        && head_node_offset == SENTINEL_SEGMENT_NODE_OFFSET\n      {\n        return Err(", "      let head_node_size_and_next_node_offset = head.load(Ordering::Relaxed);\n      let (head_node_size, next_node_offset) =\n        decode_segment_node(head_node_size_and_next_node_offset);\n\n      if head_node_size == REMOVED_SEGMENT_NODE {\n        // the head node is marked as removed, wait other thread to make progress.\n        backoff.snooze();\n        continue;\n      }\n\n      // The larget"]),
 ("C12", "relaxed-cursor-cas", S+"sync.rs", "      .compare_exchange(offset + size, offset, Ordering::SeqCst, Ordering::Relaxed)", "      .compare_exchange(offset + size, offset, Ordering::Relaxed, Ordering::Relaxed)"),
 ("C12", "relaxed-refs-drop", S+"sync.rs", "      if memory.refs().fetch_sub(1, Ordering::Release) != 1 {", "      if memory.refs().fetch_sub(1, Ordering::Relaxed) != 1 {"),
 # C13
 ("C13", "owned-ignores-detached", S+"object.rs", "      Kind::Inline(_) => {\n        if !self.detached {\n          // SAFETY: offset and offset + size are inbounds of the ARENA.\n          unsafe {\n            self\n              .arena\n              .dealloc(self.allocated.memory_offset, self.allocated.memory_size);\n          }\n        }\n      }\n      Kind::Dangling(_) => {}\n    }\n  }\n}\n\n/// A mutable reference", "      Kind::Inline(_) => {\n        {\n          // SAFETY: offset and offset + size are inbounds of the ARENA.\n          unsafe {\n            self\n              .arena\n              .dealloc(self.allocated.memory_offset, self.allocated.memory_size);\n          }\n        }\n      }\n      Kind::Dangling(_) => {}\n    }\n  }\n}\n\n/// A mutable reference"),
 ("C13", "unsync-clone-no-count", S+"unsync.rs", "      let old_size = memory.refs().fetch_add(1, Ordering::Release);", "      let old_size = memory.refs().fetch_add((self.cap % 3 != 0) as usize, Ordering::Release);"),
 # C14
 ("C14", "put-bound-off-by-one", S+"lib.rs", "        if self.len + SIZE > self.capacity() {\n          return Err(InsufficientBuffer::with_information(SIZE as u64, (self.capacity() - self.len) as u64));\n        }\n\n        // SAFETY: We have checked the buffer size.\n        unsafe { self. [< $name _unchecked >](value); }", "        if self.len + SIZE > self.capacity() + (SIZE == 16) as usize {\n          return Err(InsufficientBuffer::with_information(SIZE as u64, (self.capacity() - self.len) as u64));\n        }\n\n        // SAFETY: We have checked the buffer size.\n        unsafe { self. [< $name _unchecked >](value); }"),
 ("C14", "set-len-no-zero-shrink", S+"lib.rs", "        unsafe { core::ptr::write_bytes(self.as_mut_ptr().add(len), 0, olen - len) };", "        unsafe { core::ptr::write_bytes(self.as_mut_ptr().add(len), 0, (olen - len) / 2) };"),
 # C15
 ("C15", "varint-gap-no-min", S+"allocator.rs", "      let gap = (allocated - $offset).min($size);", "      let gap = (allocated - $offset).max($size);"),
 ("C15", "fixed-ge", S+"allocator.rs", "    if $offset.checked_add(SIZE).is_none_or(|end| end > allocated) {", "    if $offset.checked_add(SIZE).is_none_or(|end| end >= allocated) {"),
 # C16
 ("C16", "check-capacity-off", S+"memory.rs", "  if prefix_size > capacity {\n    return Err(Error::InsufficientSpace {", "  if prefix_size > capacity + 1 {\n    return Err(Error::InsufficientSpace {"),
 ("C16", "is-map-anon-wrong", S+"allocator.rs", "  fn is_map_anon(&self) -> bool {", "  fn is_map_anon_(&self) -> bool {\n    false\n  }\n  /// x\n  #[cfg(all(feature = \"memmap\", not(target_family = \"wasm\")))]\n  fn is_map_anon(&self) -> bool {\n    if self.reserved_bytes() == 33 { return !self.is_map_file(); }"),
 # C17
 ("C17", "clear-keeps-discarded", S+"memory.rs", "        header.write(H::new(data_offset as u32, min_segment_size));\n        (Either::Left(header_ptr_offset as u32), data_offset)", "        let _ = header;\n        (*header.cast::<u32>().add(2)) = data_offset as u32;\n        (Either::Left(header_ptr_offset as u32), data_offset)"),
 ("C17", "end-no-floor", S+"unsync.rs", "      ArenaPosition::End(offset) => match cap.checked_sub(offset) {\n        Some(val) => val.max(data_offset),", "      ArenaPosition::End(offset) => match cap.checked_sub(offset) {\n        Some(val) => val.max(data_offset.saturating_sub(1)),"),
 # C18
 ("C18", "truncate-copies-less", S+"memory.rs", "          ptr::copy_nonoverlapping(aligned_vec.ptr.as_ptr(), ptr, allocated);\n          self.ptr = ptr;\n        }\n\n        *aligned_vec = new;\n      }\n      MemoryBackend::MmapMut {", "          ptr::copy_nonoverlapping(aligned_vec.ptr.as_ptr(), ptr, allocated - (allocated > 200) as usize);\n          self.ptr = ptr;\n        }\n\n        *aligned_vec = new;\n      }\n      MemoryBackend::MmapMut {"),
 ("C18", "truncate-stale-cap", S+"unsync.rs", "      memory.truncate(allocated, size)?;\n      self.ptr = memory.as_mut_ptr();\n      self.cap = memory.cap();", "      memory.truncate(allocated, size)?;\n      self.ptr = memory.as_mut_ptr();\n      self.cap = memory.cap().min(self.cap.max(allocated as u32 + 64));"),
 # C19
 ("C19", "skip-remainder", S+"allocator.rs", "    if remaining_bytes > 0 {\n      let start = full_pages * page_size;", "    if remaining_bytes > 1 {\n      let start = full_pages * page_size;"),
 ("C19", "includes-reserved", S+"allocator.rs", "    let data = &allocated_memory[reserved..];\n", "    let data = &allocated_memory[reserved.saturating_sub(1)..];\n"),
 # C20
 ("C20", "discard-forgets-accounting", S+"unsync.rs", "      discarded = discarded.saturating_add(segment_node.data_size);", "      discarded = discarded.saturating_add(segment_node.data_size - (segment_node.data_size > 64) as u32);"),
 ("C20", "none-release-not-counted", S+"sync.rs", "      Freelist::None => {\n        self.increase_discarded(size);\n        true\n      }", "      Freelist::None => {\n        self.increase_discarded(size & !1);\n        true\n      }"),
]

def sh(*a, **k):
    return subprocess.run(a, check=True, capture_output=True, text=True, **k).stdout

def main():
    if os.path.exists(WT):
        subprocess.run(["git", "-C", "/repo", "worktree", "remove", "--force", WT])
    sh("git", "-C", "/repo", "worktree", "add", "--detach", WT, "HEAD")
    os.makedirs("/verif/mutants", exist_ok=True)
    bad = 0
    for prop, name, f, old, new in M:
        p = os.path.join(WT, f)
        s = open(p).read()
        olds = old if isinstance(old, list) else [old]
        news = new if isinstance(new, list) else [new]
        if any(s.count(o) < 1 for o in olds):
            print("NO MATCH", prop, name); bad += 1; continue
        for o, n in zip(olds, news):
            s = s.replace(o, n)
        open(p, "w").write(s)
        d = sh("git", "-C", WT, "diff")
        open(f"/verif/mutants/{prop}-{name}.diff", "w").write(d)
        sh("git", "-C", WT, "checkout", "--", ".")
    subprocess.run(["git", "-C", "/repo", "worktree", "remove", "--force", WT])
    print("mutants:", len(M), "unmatched:", bad)
main()
