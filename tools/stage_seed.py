#!/usr/bin/env python3
"""usage: tools/stage_seed.py <base> <round> Cxx [Cxx ...]
After tools/verify_seed.sh has confirmed <base>/<Cxx> (its one-line result is expected in <base>/verify-<Cxx>.txt),
copy patch.diff / demo.rs and write meta.json into <base>/stage/r<round>-<Cxx>/ in the shape used under /verif/seeded."""
import json, os, re, shutil, sys

base, rnd = sys.argv[1], sys.argv[2]
for pid in sys.argv[3:]:
    src = os.path.join(base, pid, 'SEED')
    ver = open(os.path.join(base, f'verify-{pid}.txt')).read().strip().splitlines()[-1]
    m = re.search(r'demo_without_change_exit=(\S+) demo_with_change_exit=(\S+) existing_tests=(\S+) memmap_lib=(\S+)', ver)
    if not m:
        print(f'{pid}: no verification line: {ver}'); continue
    ok = m.group(1) == '0' and m.group(2) != '0' and m.group(3).endswith('/0') and m.group(4).endswith('/0')
    if not ok:
        print(f'{pid}: NOT CONFIRMED: {ver}'); continue
    agent = json.load(open(os.path.join(src, 'meta.json')))
    dst = os.path.join(base, 'stage', f'r{rnd}-{pid}')
    os.makedirs(dst, exist_ok=True)
    shutil.copy(os.path.join(src, 'patch.diff'), dst)
    shutil.copy(os.path.join(src, 'demo.rs'), dst)
    meta = {
        'property': pid,
        'round': int(rnd),
        'origin': 'written by an independent sub-agent that saw only the property text (title, statement, quantifier, why tests cannot settle it, anchored files and mechanisms), a one-sentence description of each earlier seeded change for this property (to pick a different site), and a scratch worktree of /repo under /tmp (nothing from /verif)',
        'summary': agent.get('summary', ''),
        'needs_to_manifest': agent.get('needs_to_manifest', ''),
        'demo': 'demo.rs = rarena-allocator/tests/seed_demo.rs; ' + agent.get('demo_cmd', ''),
        'confirmed_by_me': {
            'how': f'tools/verify_seed.sh (SEED_BASE={base})',
            'demo_exit_without_change': m.group(1),
            'demo_exit_with_change': m.group(2),
            'cargo_test_workspace_pass_fail': m.group(3),
            'cargo_test_memmap_lib_pass_fail': m.group(4),
        },
    }
    json.dump(meta, open(os.path.join(dst, 'meta.json'), 'w'), indent=1)
    print(f'{pid}: staged -> {dst}')
