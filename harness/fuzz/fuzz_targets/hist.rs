#![no_main]
//! libFuzzer target: one Engine A history per input, every oracle armed (no owner: any predicate of
//! any property is fatal), built with AddressSanitizer so that a read or write outside the arena's
//! heap block is a crash rather than silent corruption.
use libfuzzer_sys::fuzz_target;

fuzz_target!(|data: &[u8]| {
    if let Some(case) = rv::fuzzdec::decode_case_a(data) {
        rv::enga::set_owner(None);
        let out = rv::enga::run_case(&case, rv::enga::Mode::default());
        if let Some(v) = out.viol {
            panic!("RV-VIOLATION {}:{} {}", v.prop, v.sig, v.msg);
        }
    }
});
