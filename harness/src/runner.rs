//! Generic worker (proptest TestRunner around a property's case runner) and supervisor
//! (spawns workers as child processes, merges their results, writes evidence, applies the
//! known-findings protocol).

use crate::enga::Viol;
use proptest::strategy::BoxedStrategy;
use proptest::test_runner::{Config, RngSeed, TestCaseError, TestError, TestRunner};
use serde::{de::DeserializeOwned, Deserialize, Serialize};
use std::cell::RefCell;
use std::collections::{BTreeMap, BTreeSet, HashSet};
use std::fmt::Debug;
use std::io::Write;
use std::path::{Path, PathBuf};
use std::time::Instant;

#[derive(Clone, Copy, Debug, PartialEq, Eq)]
pub enum Tier {
    Quick,
    Thorough,
}
impl Tier {
    pub fn name(self) -> &'static str {
        match self {
            Tier::Quick => "quick",
            Tier::Thorough => "thorough",
        }
    }
}

pub struct CaseReport {
    pub nontrivial: bool,
    pub classes: BTreeSet<&'static str>,
    pub viol: Option<Viol>,
}

thread_local! {
    /// summed counters a property may bump while running a case (e.g. crash points evaluated)
    pub static COUNTERS: RefCell<BTreeMap<String, u64>> = const { RefCell::new(BTreeMap::new()) };
}
pub fn bump(name: &str, by: u64) {
    COUNTERS.with(|c| *c.borrow_mut().entry(name.to_string()).or_insert(0) += by);
}

pub trait Prop: 'static {
    type Case: Serialize + DeserializeOwned + Debug + Clone + 'static;
    const ID: &'static str;
    const LEVEL: &'static str = "exploration";
    /// build profiles the workers run under ("checked", "release")
    const PROFILES: &'static [&'static str] = &["checked"];
    const SHRINK_ITERS: u32 = 2000;
    fn strategy(tier: Tier) -> BoxedStrategy<Self::Case>;
    fn run(case: &Self::Case) -> CaseReport;
    fn cases(tier: Tier) -> u64;
    fn rule() -> &'static str;
    fn assumptions() -> Vec<&'static str> {
        vec![]
    }
    /// smaller variants of a case, used by the supervisor to minimise a case that kills the process
    fn simplify(_case: &Self::Case) -> Vec<Self::Case> {
        vec![]
    }
}

pub const VERIF: &str = "/verif";

#[derive(Serialize, Deserialize, Clone, Debug)]
pub struct Finding {
    pub property: String,
    pub signature: String,
    pub status: String,
    pub what: String,
    #[serde(default)]
    pub replay: String,
}

#[derive(Serialize, Deserialize, Clone, Debug, Default)]
pub struct Findings {
    #[serde(default)]
    pub findings: Vec<Finding>,
    #[serde(default)]
    pub fixed: Vec<String>,
}

pub fn load_findings() -> Findings {
    let p = Path::new(VERIF).join("known-findings.json");
    match std::fs::read(&p) {
        Ok(b) => serde_json::from_slice(&b).unwrap_or_default(),
        Err(_) => Findings::default(),
    }
}

pub fn open_sigs(id: &str) -> Vec<Finding> {
    load_findings()
        .findings
        .into_iter()
        .filter(|f| f.property == id && f.status == "open")
        .collect()
}

pub fn fnv(b: &[u8]) -> u64 {
    let mut h: u64 = 0xcbf29ce484222325;
    for x in b {
        h ^= *x as u64;
        h = h.wrapping_mul(0x100000001b3);
    }
    h
}

pub fn splitmix(mut x: u64) -> u64 {
    x = x.wrapping_add(0x9E3779B97F4A7C15);
    let mut z = x;
    z = (z ^ (z >> 30)).wrapping_mul(0xBF58476D1CE4E5B9);
    z = (z ^ (z >> 27)).wrapping_mul(0x94D049BB133111EB);
    z ^ (z >> 31)
}

#[derive(Serialize, Deserialize, Debug, Default)]
pub struct WorkerResult {
    pub idx: usize,
    pub profile: String,
    pub evaluations: u64,
    pub nontrivial_hashes: Vec<u64>,
    pub samples: Vec<serde_json::Value>,
    pub classes: BTreeMap<String, u64>,
    pub excluded_known: BTreeMap<String, u64>,
    pub foreign: BTreeMap<String, u64>,
    pub foreign_examples: BTreeMap<String, String>,
    pub violation: Option<ViolationOut>,
    pub wall_s: f64,
    #[serde(default)]
    pub counters: BTreeMap<String, u64>,
}

#[derive(Serialize, Deserialize, Debug, Clone)]
pub struct ViolationOut {
    pub sig: String,
    pub msg: String,
    pub replay: String,
}

#[derive(Serialize, Deserialize)]
pub struct ReplayFile {
    pub property: String,
    pub expected: String,
    pub note: String,
    pub case: serde_json::Value,
}

pub fn write_replay<C: Serialize>(id: &str, case: &C, note: &str, expected: &str) -> String {
    let dir = Path::new(VERIF).join("replays").join(id);
    let _ = std::fs::create_dir_all(&dir);
    let v = serde_json::to_value(case).unwrap();
    let body = serde_json::to_vec(&v).unwrap();
    let path = dir.join(format!("{:016x}.json", fnv(&body)));
    if path.exists() {
        // never rewrite a committed reproduction (its note / expectation are part of the record)
        return path.to_string_lossy().to_string();
    }
    let rf = ReplayFile {
        property: id.to_string(),
        expected: expected.to_string(),
        note: note.to_string(),
        case: v,
    };
    let _ = std::fs::write(&path, serde_json::to_vec_pretty(&rf).unwrap());
    path.to_string_lossy().to_string()
}

struct CurFile {
    map: memmap2::MmapMut,
}
impl CurFile {
    const SIZE: usize = 1 << 20;
    fn open(path: &Path) -> Option<CurFile> {
        let f = std::fs::OpenOptions::new()
            .read(true)
            .write(true)
            .create(true)
            .truncate(true)
            .open(path)
            .ok()?;
        f.set_len(Self::SIZE as u64).ok()?;
        let map = unsafe { memmap2::MmapMut::map_mut(&f).ok()? };
        Some(CurFile { map })
    }
    fn put(&mut self, b: &[u8]) {
        let n = b.len().min(Self::SIZE - 8);
        self.map[..8].copy_from_slice(&(n as u64).to_le_bytes());
        self.map[8..8 + n].copy_from_slice(&b[..n]);
    }
}

pub fn read_cur(path: &Path) -> Option<Vec<u8>> {
    let b = std::fs::read(path).ok()?;
    if b.len() < 8 {
        return None;
    }
    let n = u64::from_le_bytes(b[..8].try_into().unwrap()) as usize;
    if n == 0 || 8 + n > b.len() {
        return None;
    }
    Some(b[8..8 + n].to_vec())
}

pub fn silence_panics() {
    if std::env::var("RV_LOUD").is_ok() {
        return;
    }
    std::panic::set_hook(Box::new(|_| {}));
}

/// One worker: runs `cases` generated cases with its own seed.
pub fn worker<P: Prop>(
    tier: Tier,
    seed: u64,
    idx: usize,
    seed_idx: usize,
    cases: u64,
    outdir: &Path,
    profile: &str,
) {
    silence_panics();
    let t0 = Instant::now();
    let known: Vec<String> = open_sigs(P::ID).into_iter().map(|f| f.signature).collect();
    let cur = RefCell::new(CurFile::open(&outdir.join(format!("cur-{idx}"))));
    let stats = RefCell::new(WorkerResult {
        idx,
        profile: profile.to_string(),
        ..Default::default()
    });
    let nt: RefCell<HashSet<u64>> = RefCell::new(HashSet::new());
    let frozen = RefCell::new(false);
    let first_fail: RefCell<Option<Viol>> = RefCell::new(None);
    let wseed = splitmix(
        seed ^ splitmix(fnv(P::ID.as_bytes()) ^ (seed_idx as u64).wrapping_mul(0xA24BAED4963EE407)),
    );
    let cfg = Config {
        cases: cases.min(u32::MAX as u64) as u32,
        rng_seed: RngSeed::Fixed(wseed),
        failure_persistence: None,
        max_shrink_iters: if tier == Tier::Quick {
            P::SHRINK_ITERS
        } else {
            P::SHRINK_ITERS * 3
        },
        max_global_rejects: 1 << 20,
        ..Config::default()
    };
    // per-case watchdog: a case that runs this long is stuck in a loop the hooks cannot see (exit code 3)
    let case_started = std::sync::Arc::new(std::sync::atomic::AtomicU64::new(0));
    {
        let cs = case_started.clone();
        let limit: u64 = std::env::var("RV_CASE_TIMEOUT_S")
            .ok()
            .and_then(|s| s.parse().ok())
            .unwrap_or(20);
        std::thread::spawn(move || loop {
            std::thread::sleep(std::time::Duration::from_millis(500));
            let st = cs.load(std::sync::atomic::Ordering::Relaxed);
            if st != 0 {
                let now = std::time::SystemTime::now()
                    .duration_since(std::time::UNIX_EPOCH)
                    .map(|d| d.as_secs())
                    .unwrap_or(0);
                if now > st + limit {
                    std::process::exit(3);
                }
            }
        });
    }
    let mut runner = TestRunner::new(cfg);
    let strat = P::strategy(tier);
    let res = runner.run(&strat, |case| {
        let body = serde_json::to_vec(&case).unwrap_or_default();
        if let Some(c) = cur.borrow_mut().as_mut() {
            c.put(&body);
        }
        case_started.store(
            std::time::SystemTime::now()
                .duration_since(std::time::UNIX_EPOCH)
                .map(|d| d.as_secs())
                .unwrap_or(0),
            std::sync::atomic::Ordering::Relaxed,
        );
        let rep = match std::panic::catch_unwind(std::panic::AssertUnwindSafe(|| P::run(&case))) {
            Ok(r) => r,
            Err(p) => {
                let m = p
                    .downcast_ref::<&str>()
                    .map(|s| s.to_string())
                    .or_else(|| p.downcast_ref::<String>().cloned())
                    .unwrap_or_default();
                CaseReport {
                    nontrivial: false,
                    classes: BTreeSet::new(),
                    viol: Some(Viol {
                        prop: P::ID,
                        sig: "panic/unguarded".into(),
                        msg: format!("panic outside a guarded call: {m}"),
                    }),
                }
            }
        };
        let is_frozen = *frozen.borrow();
        let mut st = stats.borrow_mut();
        if !is_frozen {
            st.evaluations += 1;
            for c in &rep.classes {
                *st.classes.entry(c.to_string()).or_insert(0) += 1;
            }
        }
        match rep.viol {
            None => {
                if !is_frozen && rep.nontrivial {
                    let h = fnv(&body);
                    if nt.borrow_mut().insert(h) && st.samples.len() < 3 && idx == 0 {
                        st.samples.push(serde_json::to_value(&case).unwrap());
                    }
                }
                Ok(())
            }
            Some(v) => {
                if !crate::enga::owns(v.prop, P::ID) {
                    if !is_frozen {
                        let k = format!("{}:{}", v.prop, v.sig);
                        *st.foreign.entry(k.clone()).or_insert(0) += 1;
                        // triage aid (never used by a registered command): RV_KEEP_FOREIGN=<dir> keeps the first case of
                        // each kind as a replay file of the property the failed predicate belongs to
                        if let (Ok(dir), false) = (
                            std::env::var("RV_KEEP_FOREIGN"),
                            st.foreign_examples.contains_key(&k),
                        ) {
                            let owner = v.prop.split('|').next().unwrap_or(v.prop).to_string();
                            let rf = ReplayFile {
                                property: owner.clone(),
                                expected: "hold".into(),
                                note: format!(
                                    "foreign failure seen by the {} check: {} {}",
                                    P::ID,
                                    v.sig,
                                    v.msg
                                ),
                                case: serde_json::to_value(&case).unwrap(),
                            };
                            let _ = std::fs::create_dir_all(&dir);
                            let _ = std::fs::write(
                                Path::new(&dir).join(format!(
                                    "{owner}-{}-{:016x}.json",
                                    v.sig.replace('/', "_"),
                                    fnv(&body)
                                )),
                                serde_json::to_vec_pretty(&rf).unwrap(),
                            );
                        }
                        st.foreign_examples
                            .entry(k)
                            .or_insert_with(|| v.msg.clone());
                    }
                    return Ok(());
                }
                if known.iter().any(|k| *k == v.sig) {
                    if !is_frozen {
                        *st.excluded_known.entry(v.sig.clone()).or_insert(0) += 1;
                    }
                    return Ok(());
                }
                // while shrinking, only accept the same signature so the minimal case is the same defect
                if let Some(f) = first_fail.borrow().as_ref() {
                    if f.sig != v.sig {
                        return Ok(());
                    }
                }
                if !is_frozen {
                    st.counters = COUNTERS.with(|c| c.borrow().clone());
                }
                *frozen.borrow_mut() = true;
                if first_fail.borrow().is_none() {
                    *first_fail.borrow_mut() = Some(v.clone());
                }
                Err(TestCaseError::fail(format!("{}|{}", v.sig, v.msg)))
            }
        }
    });
    let mut out = stats.into_inner();
    if !*frozen.borrow() {
        out.counters = COUNTERS.with(|c| c.borrow().clone());
    }
    out.nontrivial_hashes = nt.into_inner().into_iter().collect();
    if let Err(e) = res {
        match e {
            TestError::Fail(reason, case) => {
                let r = reason.message().to_string();
                let (sig, msg) = match r.split_once('|') {
                    Some((a, b)) => (a.to_string(), b.to_string()),
                    None => ("unknown".to_string(), r),
                };
                // re-run the minimal case to get its own message
                let rep = P::run(&case);
                let msg = rep.viol.map(|v| v.msg).unwrap_or(msg);
                let path = write_replay(
                    P::ID,
                    &case,
                    &format!("{sig}: {msg} [profile {profile}]"),
                    "hold",
                );
                out.violation = Some(ViolationOut {
                    sig,
                    msg,
                    replay: path,
                });
            }
            TestError::Abort(r) => {
                out.violation = None;
                out.foreign
                    .insert(format!("runner-abort:{}", r.message()), 1);
            }
        }
    }
    out.wall_s = t0.elapsed().as_secs_f64();
    let _ = std::fs::write(
        outdir.join(format!("res-{idx}.json")),
        serde_json::to_vec(&out).unwrap(),
    );
    let _ = std::fs::remove_dir_all(crate::enga::scratch_dir());
}

/// Runs one saved case in-process. Returns the violation tagged with the property, if any.
pub fn replay_one<P: Prop>(v: &serde_json::Value) -> Result<Option<Viol>, String> {
    let case: P::Case =
        serde_json::from_value(v.clone()).map_err(|e| format!("cannot decode case: {e}"))?;
    let rep = P::run(&case);
    let _ = std::fs::remove_dir_all(crate::enga::scratch_dir());
    Ok(rep.viol)
}

pub fn simplify_one<P: Prop>(v: &serde_json::Value) -> Vec<serde_json::Value> {
    match serde_json::from_value::<P::Case>(v.clone()) {
        Ok(c) => P::simplify(&c)
            .into_iter()
            .map(|c| serde_json::to_value(c).unwrap())
            .collect(),
        Err(_) => vec![],
    }
}

pub struct PropInfo {
    pub id: &'static str,
    pub level: &'static str,
    pub profiles: &'static [&'static str],
    pub cases: u64,
    pub rule: &'static str,
    pub assumptions: Vec<&'static str>,
}

pub fn info<P: Prop>(tier: Tier) -> PropInfo {
    PropInfo {
        id: P::ID,
        level: P::LEVEL,
        profiles: P::PROFILES,
        cases: P::cases(tier),
        rule: P::rule(),
        assumptions: P::assumptions(),
    }
}

fn sibling_binary(profile: &str) -> PathBuf {
    let me = std::env::current_exe().expect("current exe");
    // .../target/<profile>/rv
    let target = me.parent().and_then(|p| p.parent()).expect("target dir");
    target.join(profile).join("rv")
}

pub enum ChildOutcome {
    /// exit 0; the string is the child's stdout (says whether a predicate of another property failed)
    Held(String),
    Violation(String),
    Crashed(String),
    Other(i32),
}

/// Runs `rv replay <file>` in a child so that a crash is data.
pub fn replay_in_child(profile: &str, file: &Path, timeout_s: u64) -> ChildOutcome {
    use std::process::{Command, Stdio};
    let mut child = match Command::new(sibling_binary(profile))
        .arg("replay")
        .arg(file)
        .arg("--quiet")
        .stdout(Stdio::piped())
        .stderr(Stdio::null())
        .spawn()
    {
        Ok(c) => c,
        Err(e) => return ChildOutcome::Crashed(format!("spawn failed: {e}")),
    };
    let t0 = Instant::now();
    loop {
        match child.try_wait() {
            Ok(Some(st)) => {
                use std::os::unix::process::ExitStatusExt;
                let mut out = String::new();
                if let Some(mut so) = child.stdout.take() {
                    use std::io::Read;
                    let _ = so.read_to_string(&mut out);
                }
                if let Some(sig) = st.signal() {
                    return ChildOutcome::Crashed(format!("signal {sig}"));
                }
                return match st.code() {
                    Some(0) => ChildOutcome::Held(out),
                    Some(1) => ChildOutcome::Violation(out),
                    Some(c) => ChildOutcome::Other(c),
                    None => ChildOutcome::Other(-1),
                };
            }
            Ok(None) => {
                if t0.elapsed().as_secs() > timeout_s {
                    let _ = child.kill();
                    let _ = child.wait();
                    return ChildOutcome::Crashed("hang".to_string());
                }
                std::thread::sleep(std::time::Duration::from_millis(5));
            }
            Err(_) => return ChildOutcome::Other(-1),
        }
    }
}

pub struct SupArgs {
    pub tier: Tier,
    pub seed: u64,
    pub workers: usize,
    pub cases_override: Option<u64>,
}

/// Supervisor: returns the process exit code.
pub fn supervise(
    pi: PropInfo,
    args: SupArgs,
    replay_files: Vec<PathBuf>,
    simplify: &dyn Fn(&serde_json::Value) -> Vec<serde_json::Value>,
) -> (i32, serde_json::Value) {
    use std::process::{Command, Stdio};
    let t0 = Instant::now();
    let id = pi.id;
    let findings = open_sigs(id);
    for f in &findings {
        println!(
            "KNOWN-FINDING: property={} {} [{}]",
            id, f.what, f.signature
        );
    }
    let outdir = crate::enga::scratch_dir().join("sup");
    let _ = std::fs::create_dir_all(&outdir);
    let mut violations: Vec<(String, String, String)> = Vec::new();

    // 1. regression tier: committed replays of this property
    let mut replays_run = 0u64;
    for f in &replay_files {
        let Ok(b) = std::fs::read(f) else { continue };
        let Ok(rf) = serde_json::from_slice::<ReplayFile>(&b) else {
            continue;
        };
        if rf.property != id {
            continue;
        }
        for profile in pi.profiles {
            replays_run += 1;
            match replay_in_child(profile, f, 120) {
                ChildOutcome::Held(_) => {}
                ChildOutcome::Violation(out) => {
                    // a replay of an open known finding is expected to fail with that signature
                    let known = findings
                        .iter()
                        .any(|k| out.contains(&format!("sig={}", k.signature)));
                    if !known {
                        violations.push((
                            "replay".into(),
                            out.lines().next().unwrap_or("").to_string(),
                            f.to_string_lossy().to_string(),
                        ));
                    }
                }
                ChildOutcome::Crashed(how) => {
                    let known = findings.iter().any(|k| {
                        k.signature.starts_with("crash") && rf.expected.contains(&k.signature)
                    });
                    if !known {
                        violations.push((
                            format!("crash/{how}"),
                            format!("replay {} died: {how}", f.display()),
                            f.to_string_lossy().to_string(),
                        ));
                    }
                }
                ChildOutcome::Other(c) => {
                    eprintln!(
                        "replay {} exited with code {c} (infrastructure)",
                        f.display()
                    );
                    return (2, serde_json::Value::Null);
                }
            }
        }
    }

    // 2. generated tier
    let total = args.cases_override.unwrap_or(pi.cases);
    let nprof = pi.profiles.len();
    let groups = (args.workers / nprof).max(1);
    let per = total.div_ceil(groups as u64).max(1);
    let mut children = Vec::new();
    for w in 0..groups * nprof {
        let profile = pi.profiles[w % nprof];
        let seed_idx = w / nprof;
        let bin = sibling_binary(profile);
        if !bin.exists() {
            eprintln!(
                "missing binary {} (build profile {profile} first)",
                bin.display()
            );
            return (2, serde_json::Value::Null);
        }
        // the unoptimised build runs the same generator at a sixteenth of the case count (it is that much slower)
        let per_p = if profile == "unopt" {
            (per / 16).max(1)
        } else {
            per
        };
        let child = Command::new(bin)
            .args([
                "worker",
                id,
                args.tier.name(),
                &args.seed.to_string(),
                &w.to_string(),
                &seed_idx.to_string(),
                &per_p.to_string(),
                outdir.to_str().unwrap(),
                profile,
            ])
            .stdout(Stdio::null())
            .stderr(Stdio::inherit())
            .spawn();
        match child {
            Ok(c) => children.push((w, profile, c)),
            Err(e) => {
                eprintln!("cannot spawn worker: {e}");
                return (2, serde_json::Value::Null);
            }
        }
    }
    let watchdog_s: u64 = std::env::var("RV_WATCHDOG_S")
        .ok()
        .and_then(|s| s.parse().ok())
        .unwrap_or(if args.tier == Tier::Quick {
            900
        } else {
            6 * 3600
        });
    let mut results: Vec<WorkerResult> = Vec::new();
    let mut crashed: Vec<(usize, &str, String)> = Vec::new();
    let mut timed_out: Vec<(usize, &str)> = Vec::new();
    let mut hung = false;
    for (w, profile, mut c) in children {
        loop {
            match c.try_wait() {
                Ok(Some(st)) => {
                    use std::os::unix::process::ExitStatusExt;
                    if let Some(sig) = st.signal() {
                        crashed.push((w, profile, format!("signal {sig}")));
                    } else if st.code() == Some(3) {
                        timed_out.push((w, profile));
                    } else if st.code() != Some(0) {
                        crashed.push((w, profile, format!("exit code {:?}", st.code())));
                    } else if let Ok(b) = std::fs::read(outdir.join(format!("res-{w}.json"))) {
                        if let Ok(r) = serde_json::from_slice::<WorkerResult>(&b) {
                            results.push(r);
                        }
                    }
                    break;
                }
                Ok(None) => {
                    if t0.elapsed().as_secs() > watchdog_s {
                        let _ = c.kill();
                        let _ = c.wait();
                        hung = true;
                        timed_out.push((w, profile));
                        break;
                    }
                    std::thread::sleep(std::time::Duration::from_millis(10));
                }
                Err(_) => break,
            }
        }
    }

    // 3a. workers stopped by a watchdog: not a verdict (exit 2); keep the case for inspection
    let mut infra = false;
    for (w, profile) in &timed_out {
        infra = true;
        if let Some(body) = read_cur(&outdir.join(format!("cur-{w}"))) {
            let dir = Path::new(VERIF)
                .join("harness")
                .join("target")
                .join("timeouts");
            let _ = std::fs::create_dir_all(&dir);
            let f = dir.join(format!("{id}-{:016x}.json", fnv(&body)));
            if let Ok(case) = serde_json::from_slice::<serde_json::Value>(&body) {
                let rf = ReplayFile {
                    property: id.to_string(),
                    expected: "hold".into(),
                    note: format!("case did not finish within the watchdog [profile {profile}]"),
                    case,
                };
                let _ = std::fs::write(&f, serde_json::to_vec(&rf).unwrap());
                eprintln!("worker {w} [{profile}] was stopped by the watchdog; the case it was running is in {}", f.display());
            }
        }
    }
    // 3b. workers that died: the case they were running is the reproduction
    for (w, profile, how) in &crashed {
        let Some(body) = read_cur(&outdir.join(format!("cur-{w}"))) else {
            eprintln!("worker {w} died ({how}) without a recorded case");
            infra = true;
            continue;
        };
        let Ok(mut case) = serde_json::from_slice::<serde_json::Value>(&body) else {
            infra = true;
            continue;
        };
        let tmp = outdir.join(format!("crash-{w}.json"));
        let write_tmp = |c: &serde_json::Value| {
            let rf = ReplayFile {
                property: id.to_string(),
                expected: "hold".into(),
                note: format!("worker died: {how} [profile {profile}]"),
                case: c.clone(),
            };
            let _ = std::fs::write(&tmp, serde_json::to_vec(&rf).unwrap());
        };
        write_tmp(&case);
        let bad = |o: &ChildOutcome| matches!(o, ChildOutcome::Crashed(_));
        let first = replay_in_child(profile, &tmp, 30);
        if matches!(&first, ChildOutcome::Crashed(h) if h == "hang") {
            eprintln!("worker {w} died ({how}); replaying its case alone hangs: inconclusive");
            infra = true;
            continue;
        }
        if !bad(&first) {
            if let ChildOutcome::Violation(out) = first {
                // deterministic as a violation rather than a crash: still a failing input
                let known = findings
                    .iter()
                    .any(|k| out.contains(&format!("sig={}", k.signature)));
                if !known {
                    // the child's own VIOLATION line names a scratch file; report its `sig=` line instead
                    let what = out
                        .lines()
                        .find(|l| l.contains("sig="))
                        .unwrap_or("")
                        .trim()
                        .to_string();
                    let path = write_replay(
                        id,
                        &case,
                        &format!("worker died ({how}); replay reports: {what}"),
                        "hold",
                    );
                    violations.push((
                        format!("crash/{how}"),
                        format!("replayed alone: {what}"),
                        path,
                    ));
                }
                continue;
            }
            eprintln!(
                "worker {w} died ({how}) but its case does not reproduce alone: not deterministic"
            );
            infra = true;
            continue;
        }
        // delta-debug in children
        let mut budget = 200;
        let mut progress = true;
        while progress && budget > 0 {
            progress = false;
            for cand in simplify(&case) {
                if budget == 0 {
                    break;
                }
                budget -= 1;
                write_tmp(&cand);
                if matches!(replay_in_child(profile, &tmp, 20), ChildOutcome::Crashed(ref h) if h != "hang")
                {
                    case = cand;
                    progress = true;
                    break;
                }
            }
        }
        let sig = format!("crash/{}", how.replace(' ', "-"));
        if findings.iter().any(|k| k.signature == sig) {
            continue;
        }
        let path = write_replay(
            id,
            &case,
            &format!("process died: {how} [profile {profile}]"),
            "hold",
        );
        violations.push((
            sig,
            format!("the process running this case died: {how}"),
            path,
        ));
    }
    for r in &results {
        if let Some(v) = &r.violation {
            violations.push((v.sig.clone(), v.msg.clone(), v.replay.clone()));
        }
    }

    // 4. evidence
    let evaluations: u64 = results.iter().map(|r| r.evaluations).sum();
    let mut nt: HashSet<u64> = HashSet::new();
    let mut classes: BTreeMap<String, u64> = BTreeMap::new();
    let mut excluded: BTreeMap<String, u64> = BTreeMap::new();
    let mut foreign: BTreeMap<String, u64> = BTreeMap::new();
    let mut foreign_examples: BTreeMap<String, String> = BTreeMap::new();
    let mut samples: Vec<serde_json::Value> = Vec::new();
    let mut counters: BTreeMap<String, u64> = BTreeMap::new();
    for r in &results {
        for (k, v) in &r.counters {
            *counters.entry(k.clone()).or_insert(0) += v;
        }
        nt.extend(r.nontrivial_hashes.iter().copied());
        for (k, v) in &r.classes {
            *classes.entry(k.clone()).or_insert(0) += v;
        }
        for (k, v) in &r.excluded_known {
            *excluded.entry(k.clone()).or_insert(0) += v;
        }
        for (k, v) in &r.foreign {
            *foreign.entry(k.clone()).or_insert(0) += v;
        }
        for (k, v) in &r.foreign_examples {
            foreign_examples
                .entry(k.clone())
                .or_insert_with(|| v.clone());
        }
        if samples.len() < 3 {
            samples.extend(r.samples.iter().cloned());
            samples.truncate(3);
        }
    }
    let ev = serde_json::json!({
        "property_id": id,
        "tier": args.tier.name(),
        "seed": args.seed,
        "level": pi.level,
        "coverage": {
            "evaluations": evaluations,
            "distinct_nontrivial": nt.len(),
            "rule": pi.rule,
            "samples": samples,
            "class_histogram": classes,
            "counters": counters,
            "excluded_known_findings": excluded,
            "foreign_failures_discarded": foreign,
            "foreign_failure_examples": foreign_examples,
            "committed_replays_run": replays_run,
            "workers": results.len(),
            "profiles": pi.profiles,
            "workers_died": crashed.iter().map(|c| format!("worker {} [{}]: {}", c.0, c.1, c.2)).collect::<Vec<_>>(),
            "violation_signatures": violations.iter().map(|v| v.0.clone()).collect::<Vec<_>>(),
        },
        "assumptions": pi.assumptions,
        "wall_s": t0.elapsed().as_secs_f64(),
        "violations": violations.len(),
    });
    write_evidence(id, &ev);
    let _ = std::fs::remove_dir_all(crate::enga::scratch_dir());

    println!(
        "{id} {}: {evaluations} cases, {} distinct non-trivial, {} replays, {} foreign discarded, {} known excluded, {:.1}s",
        args.tier.name(),
        nt.len(),
        replays_run,
        foreign.values().sum::<u64>(),
        excluded.values().sum::<u64>(),
        t0.elapsed().as_secs_f64()
    );
    if !violations.is_empty() {
        // one line (and one kept replay file) per distinct signature
        let mut seen = BTreeSet::new();
        let mut kept = BTreeSet::new();
        for (sig, msg, path) in &violations {
            if seen.insert(sig.clone()) {
                println!("VIOLATION property={id} replay={path}");
                println!("  sig={sig} {msg}");
                kept.insert(path.clone());
            }
        }
        for (_, _, path) in &violations {
            if !kept.contains(path)
                && path.starts_with(&format!("{VERIF}/replays/"))
                && !replay_files.iter().any(|f| f.to_string_lossy() == *path)
            {
                let _ = std::fs::remove_file(path);
            }
        }
        return (1, ev);
    }
    if infra || hung {
        eprintln!("infrastructure problem (worker hang or non-deterministic death); not a verdict");
        return (2, ev);
    }
    if evaluations == 0 {
        eprintln!("no cases were evaluated");
        return (2, ev);
    }
    (0, ev)
}

pub fn write_evidence(id: &str, ev: &serde_json::Value) {
    let evdir = Path::new(VERIF).join("evidence");
    let _ = std::fs::create_dir_all(&evdir);
    if let Ok(mut f) = std::fs::File::create(evdir.join(format!("{id}.json"))) {
        let _ = f.write_all(&serde_json::to_vec_pretty(ev).unwrap());
    }
}

/// Thorough-tier extra for C04: the Engine A interpreter as a libFuzzer target under AddressSanitizer.
/// Tooling trouble is recorded in the evidence and never turned into a verdict.
pub fn fuzz_stage(id: &str, seed: u64, runs_per_job: u64, jobs: u32) -> (i32, serde_json::Value) {
    use std::process::Command;
    let t0 = Instant::now();
    let fuzz_dir = Path::new(VERIF).join("harness").join("fuzz");
    let scratch = crate::enga::scratch_dir().join("fuzz");
    let corpus = scratch.join("corpus");
    let art = scratch.join("art");
    let _ = std::fs::create_dir_all(&corpus);
    let _ = std::fs::create_dir_all(&art);
    let _ = std::fs::copy(
        Path::new(VERIF).join("harness").join("Cargo.lock"),
        fuzz_dir.join("Cargo.lock"),
    );
    let build = Command::new("cargo")
        .args(["+nightly", "fuzz", "build", "hist"])
        .current_dir(&fuzz_dir)
        .env("CARGO_NET_OFFLINE", "true")
        .output();
    let ok = matches!(&build, Ok(o) if o.status.success());
    if !ok {
        let why = match build {
            Ok(o) => String::from_utf8_lossy(&o.stderr)
                .lines()
                .rev()
                .take(5)
                .collect::<Vec<_>>()
                .join(" | "),
            Err(e) => e.to_string(),
        };
        eprintln!("fuzz stage unavailable (cargo +nightly fuzz build failed): recorded in evidence, not a verdict");
        return (0, serde_json::json!({"status": "unavailable", "why": why}));
    }
    let seeds = fuzz_dir.join("seeds").join("hist");
    let mut cmd = Command::new("cargo");
    cmd.args(["+nightly", "fuzz", "run", "hist"]).arg(&corpus);
    if seeds.is_dir() {
        cmd.arg(&seeds);
    }
    cmd.arg("--")
        .arg(format!("-runs={runs_per_job}"))
        .arg(format!("-seed={seed}"))
        .args(["-max_len=400", "-len_control=0", "-print_final_stats=1"])
        .arg(format!("-jobs={jobs}"))
        .arg(format!("-workers={jobs}"))
        .arg(format!("-artifact_prefix={}/", art.display()))
        .current_dir(&scratch)
        .env("CARGO_NET_OFFLINE", "true");
    // cargo fuzz must run from the fuzz project's parent; logs (fuzz-N.log) go to the cwd
    cmd.current_dir(&fuzz_dir);
    let out = cmd.output();
    let status_txt = match &out {
        Ok(o) => format!("exit {:?}", o.status.code()),
        Err(e) => format!("spawn failed: {e}"),
    };
    let mut artifacts: Vec<PathBuf> = std::fs::read_dir(&art)
        .map(|d| d.filter_map(|e| e.ok().map(|e| e.path())).collect())
        .unwrap_or_default();
    artifacts.sort();
    let corpus_files = std::fs::read_dir(&corpus).map(|d| d.count()).unwrap_or(0);
    for f in std::fs::read_dir(&fuzz_dir).into_iter().flatten().flatten() {
        let n = f.file_name().to_string_lossy().to_string();
        if n.starts_with("fuzz-") && n.ends_with(".log") {
            let _ = std::fs::remove_file(f.path());
        }
    }
    let mut code = 0;
    let mut foreign = 0u64;
    let mut reported: Vec<String> = Vec::new();
    for a in &artifacts {
        let Ok(bytes) = std::fs::read(a) else {
            continue;
        };
        let Some(case) = crate::fuzzdec::decode_case_a(&bytes) else {
            continue;
        };
        let path = write_replay(
            id,
            &case,
            &format!(
                "libFuzzer/ASan artifact {}",
                a.file_name().unwrap().to_string_lossy()
            ),
            "hold",
        );
        match replay_in_child("checked", Path::new(&path), 60) {
            ChildOutcome::Violation(o) => {
                println!("VIOLATION property={id} replay={path}");
                println!("  {}", o.lines().nth(1).unwrap_or("").trim());
                reported.push(path);
                code = 1;
            }
            ChildOutcome::Crashed(how) => {
                println!("VIOLATION property={id} replay={path}");
                println!(
                    "  sig=crash/{} found by the fuzz stage",
                    how.replace(' ', "-")
                );
                reported.push(path);
                code = 1;
            }
            ChildOutcome::Held(o) if o.contains("a predicate of") || id != "C04" => {
                // the failing predicate belongs to another property (or, for properties other than C04, the
                // failure exists only under the sanitizer): not this check's business
                foreign += 1;
                let _ = std::fs::remove_file(&path);
            }
            ChildOutcome::Held(_) => {
                // fails only in the sanitizer build: an access outside the arena's memory (or a debug assertion)
                let keep = Path::new(VERIF)
                    .join("replays")
                    .join(id)
                    .join(format!("{}.bin", a.file_name().unwrap().to_string_lossy()));
                let _ = std::fs::copy(a, &keep);
                println!("VIOLATION property={id} replay={path}");
                println!("  sig=fuzz/sanitizer-only the case fails under AddressSanitizer but not in the plain build (raw input kept as {})", keep.display());
                reported.push(path);
                code = 1;
            }
            ChildOutcome::Other(_) => {
                foreign += 1;
                let _ = std::fs::remove_file(&path);
            }
        }
    }
    let ev = serde_json::json!({
        "status": "ran",
        "engine": "cargo +nightly fuzz run hist (libFuzzer, AddressSanitizer), target = Engine A interpreter with every oracle armed",
        "jobs": jobs,
        "runs_per_job": runs_per_job,
        "total_runs": runs_per_job * jobs as u64,
        "final_corpus_files": corpus_files,
        "artifacts": artifacts.len(),
        "artifacts_reported": reported,
        "artifacts_other": foreign,
        "cargo_fuzz": status_txt,
        "wall_s": t0.elapsed().as_secs_f64(),
    });
    let _ = std::fs::remove_dir_all(&scratch);
    (code, ev)
}
