//! Engine A: single-threaded, model-based history interpreter.
//!
//! Drives a real arena (either flavour) with a generated operation list, keeps a shadow model of
//! everything that has been handed out, and evaluates the oracles of the listed properties after
//! every step. Every oracle failure is tagged with the property it belongs to.

use crate::case::*;
use crate::flavor::*;
use crate::types::{drops_of, pat, zst_drops, TYPES};
use rarena_allocator::{
    verif::{self},
    ArenaPosition, Error, Freelist, Options,
};
use serde::Serialize;
use std::cell::Cell;
use std::collections::BTreeSet;
use std::panic::{catch_unwind, AssertUnwindSafe};
use std::path::PathBuf;
use std::rc::Rc;

#[derive(Debug, Clone)]
pub struct Viol {
    pub prop: &'static str,
    pub sig: String,
    pub msg: String,
}

pub type R<T = ()> = Result<T, Viol>;

macro_rules! viol {
    ($prop:expr, $sig:expr, $($arg:tt)*) => {
        Viol { prop: $prop, sig: $sig.to_string(), msg: format!($($arg)*) }
    };
}
macro_rules! ensure {
    ($cond:expr, $prop:expr, $sig:expr, $($arg:tt)*) => {
        if !($cond) {
            let v = viol!($prop, $sig, $($arg)*);
            if !$crate::enga::soften(&v) {
                return Err(v);
            }
        }
    };
}

thread_local! {
    /// the property the running check owns: predicate failures of *other* properties are noted and the
    /// history goes on (so that an earlier foreign failure cannot mask a later failure of the owner)
    pub static OWNER: Cell<Option<&'static str>> = const { Cell::new(None) };
    pub static FOREIGN: std::cell::RefCell<Option<Viol>> = const { std::cell::RefCell::new(None) };
}

/// failures after which the interpreter cannot safely go on (it would index out of the arena, or call
/// into an arena whose free list no longer terminates)
const FATAL_SIGS: &[&str] = &[
    "range-out-of-arena",
    "capacity-exceeds-arena",
    "cursor-range",
    "above-cursor",
    "below-data-offset",
    "walk-incomplete",
    "ctor-failed",
    "reopen-failed",
    "reopen-bytes",
    "infra",
];

/// a predicate may belong to several properties ("C01|C13")
pub fn owns(tag: &str, id: &str) -> bool {
    tag.split('|').any(|p| p == id)
}

pub fn soften(v: &Viol) -> bool {
    let Some(owner) = OWNER.with(|o| o.get()) else {
        return false;
    };
    if owns(v.prop, owner) || FATAL_SIGS.contains(&v.sig.as_str()) {
        return false;
    }
    FOREIGN.with(|f| {
        let mut f = f.borrow_mut();
        if f.is_none() {
            *f = Some(v.clone());
        }
    });
    true
}

pub fn set_owner(o: Option<&'static str>) -> Option<&'static str> {
    FOREIGN.with(|f| *f.borrow_mut() = None);
    OWNER.with(|c| c.replace(o))
}

pub fn take_foreign() -> Option<Viol> {
    FOREIGN.with(|f| f.borrow_mut().take())
}

/// keeps a freshly returned handle from being dropped (and so from re-entering the arena) if a check
/// fails before the handle is registered in the model
struct NoDrop(Option<HBox>);
impl Drop for NoDrop {
    fn drop(&mut self) {
        if let Some(o) = self.0.take() {
            std::mem::forget(o);
        }
    }
}
#[allow(unused_imports)]
pub(crate) use {ensure, viol};

thread_local! {
    /// true only while a guarded call into the arena is running: crash points and step budgets are
    /// counted there, not during the harness's own observation calls
    pub static IN_API: Cell<bool> = const { Cell::new(false) };
}

pub fn guard<T>(what: &str, owner: &'static str, f: impl FnOnce() -> T) -> R<T> {
    let prev = IN_API.with(|c| c.replace(true));
    let r = catch_unwind(AssertUnwindSafe(f));
    IN_API.with(|c| c.set(prev));
    match r {
        Ok(v) => Ok(v),
        Err(p) => {
            if p.is::<BudgetExceeded>() {
                return Err(viol!(
                    "C07",
                    format!("non-termination/{what}"),
                    "{what} did not finish within the step budget"
                ));
            }
            let m = if let Some(s) = p.downcast_ref::<&str>() {
                s.to_string()
            } else if let Some(s) = p.downcast_ref::<String>() {
                s.clone()
            } else {
                "non-string panic".to_string()
            };
            Err(viol!(
                owner,
                format!("panic/{what}"),
                "{what} panicked: {m}"
            ))
        }
    }
}

#[derive(Clone, Debug, PartialEq, Eq, Serialize)]
pub struct Snap {
    pub allocated: usize,
    pub discarded: u32,
    pub remaining: usize,
    pub capacity: usize,
    pub minseg: u32,
    pub refs: usize,
    pub fl: Vec<(u32, u32, u32)>,
    pub fl_complete: bool,
}

#[derive(Clone, Debug, PartialEq, Eq, Serialize)]
pub struct Obs {
    pub op: usize,
    /// "ok", "nospace", "readonly", "skip", "io-err", ...
    pub res: String,
    pub range: Option<(usize, usize, usize, usize)>,
    pub snap: Snap,
    pub memhash: u64,
    /// the bytes between the reserved prefix and the data area (identification block, padding, header when it lives
    /// in the buffer), recorded when `Mode::prefix` is set
    pub prefix: Vec<u8>,
}

pub struct H {
    pub obj: Option<HBox>,
    pub kind: HKind,
    pub ty: usize,
    pub off: usize,
    pub cap: usize,
    pub boff: usize,
    pub bcap: usize,
    pub expect: Vec<u8>,
    pub embeds: usize,
    pub via: usize,
    pub detached: bool,
    pub drop_id: Option<u64>,
    /// zero-sized drop type: number of drops observed while the value was written into the handle (0 or 1)
    pub zst_written: Option<u64>,
    pub id: u32,
}

#[derive(Clone)]
pub struct Saved {
    ranges: Vec<(HKind, usize, usize, usize, usize, usize, Vec<u8>, u32)>,
    dead: Vec<(usize, usize)>,
    high_water: usize,
    file: Vec<u8>,
    obs: Snap,
}

#[derive(Clone, Debug, Default)]
pub struct Mode {
    pub trace: bool,
    pub count_unmount: bool,
    /// C08: fill every allocation with non-zero bytes right after it is checked
    pub dirty: bool,
    /// record a hash of memory() in every observation
    pub memhash: bool,
    /// record memory()[reserved..data_offset] in every observation
    pub prefix: bool,
    /// C06: record a snapshot of memory() at every atomic step (crash points)
    pub crash: bool,
    /// post-crash world: only C01-type predicates and termination are judged
    pub lenient: bool,
    /// abort an operation (by unwinding out of the hook) after this many consecutive accesses that wrote nothing
    pub budget: Option<u32>,
    /// drop every zero-sized handle right away, also an owned one that embeds an arena value (keeps the
    /// handle indices of an all-borrowed and an all-owned run of one history aligned)
    pub drop_zero_now: bool,
    /// reopen steps may also ask for a capacity BELOW the cursor stored in the file (outside C05's domain; C15 / C16:
    /// such an open must be refused, or yield an arena whose cursor lies inside its capacity)
    pub below_cursor_reopen: bool,
}

/// panic payload used to abandon an operation that exceeded its step budget
pub struct BudgetExceeded;

#[derive(Clone, Debug)]
pub struct LiveRec {
    pub id: u32,
    pub off: usize,
    pub cap: usize,
    pub expect: Vec<u8>,
}

#[derive(Clone, Debug)]
pub struct CrashSnap {
    pub op: usize,
    /// 1-based index of the atomic step the crash happens before; u32::MAX = after the operation
    pub step: u32,
    pub what: String,
    pub bytes: Vec<u8>,
}

pub struct CrashShared {
    pub ptr: Cell<*const u8>,
    pub cap: Cell<usize>,
    pub cur_op: Cell<usize>,
    pub step: Cell<u32>,
    pub enabled: Cell<bool>,
    pub snaps: std::cell::RefCell<Vec<CrashSnap>>,
    pub budget_used: Cell<u32>,
}

pub struct World<A: Flavor> {
    pub cfg: Cfg,
    pub mode: Mode,
    pub opts: Options,
    pub arenas: Vec<Option<Box<A>>>,
    pub hs: Vec<H>,
    pub next_id: u32,
    pub high_water: usize,
    pub dead: Vec<(usize, usize)>,
    pub reserved_expect: Vec<u8>,
    pub ro: bool,
    pub cow: Option<Saved>,
    /// the current copy-on-write session holds a descriptor without write access: a truncate that has to grow the
    /// file is refused by the operating system (and must then change nothing)
    pub cow_nowrite: bool,
    pub path: Option<PathBuf>,
    pub truncated: bool,
    pub classes: BTreeSet<&'static str>,
    pub trace: Vec<Obs>,
    pub unmounts: Rc<Cell<u32>>,
    pub expected_unmounts: u32,
    pub inc_total: u64,
    pub freelist: u8,
    pub opno: usize,
    pub page: usize,
    /// bytes that some owner has ever set non-zero (C08 non-triviality), by offset
    pub dirtied: Vec<bool>,
    /// C20: discarded() as of the previous step (monotone except through clear)
    pub last_discarded: u32,
    /// C13: the file was marked remove-on-drop: it must exist until the last holder is dropped and be gone right after
    pub remove_on_drop: bool,
    pub crash: Option<Rc<CrashShared>>,
    /// per executed op: live set before and after (C06)
    pub live_log: Vec<(Vec<LiveRec>, Vec<LiveRec>, String)>,
    /// a raw rewind left free-list segments above the cursor (open known finding)
    pub stale_list: bool,
    /// number of releases of the backing store that had happened when the file was marked remove-on-drop
    pub rod_base: u32,
}

pub fn base_opts(cfg: &Cfg) -> Options {
    let fl = match cfg.freelist {
        0 => Freelist::None,
        1 => Freelist::Optimistic,
        _ => Freelist::Pessimistic,
    };
    Options::new()
        .with_reserved(cfg.reserved)
        .with_maximum_alignment(cfg.max_align as usize)
        .with_minimum_segment_size(cfg.min_seg)
        .with_maximum_retries(cfg.retries)
        .with_unify(cfg.unify)
        .with_magic_version(cfg.magic)
        .with_freelist(fl)
}

pub fn expected_data_offset<A: Flavor>(cfg: &Cfg) -> usize {
    let o = base_opts(cfg);
    if cfg.unify || cfg.backend == Backend::File {
        o.data_offset_unify::<A>()
    } else {
        o.data_offset::<A>()
    }
}

thread_local! {
    static FILE_CTR: Cell<u64> = const { Cell::new(0) };
}

pub fn scratch_dir() -> PathBuf {
    let base = if std::path::Path::new("/dev/shm").is_dir() {
        PathBuf::from("/dev/shm")
    } else {
        std::env::temp_dir()
    };
    let d = base.join(format!("rv-{}", std::process::id()));
    let _ = std::fs::create_dir_all(&d);
    d
}

pub fn fresh_path() -> PathBuf {
    let n = FILE_CTR.with(|c| {
        let v = c.get();
        c.set(v + 1);
        v
    });
    scratch_dir()
        .join(format!("arena-{:?}-{n}", std::thread::current().id()).replace(['(', ')'], ""))
}

pub fn page_size() -> usize {
    unsafe { libc::sysconf(libc::_SC_PAGESIZE) as usize }
}

pub fn res_kind<T>(r: &Result<T, Error>) -> &'static str {
    match r {
        Ok(_) => "ok",
        Err(Error::InsufficientSpace { .. }) => "nospace",
        Err(Error::ReadOnly) => "readonly",
        Err(Error::OutOfBounds { .. }) => "oob",
        Err(_) => "other-err",
    }
}

/// the path-builder constructors return `Either<builder error, io::Error>`; the harness's builder never fails
pub fn either_io(e: either::Either<std::io::Error, std::io::Error>) -> std::io::Error {
    match e {
        either::Either::Left(e) | either::Either::Right(e) => e,
    }
}

/// File-open flags a caller may have left set on the `Options` it passes to a READ-ONLY open (`map`,
/// `map_copy_read_only` and their path-builder forms): the implementation clears every one of them, so such an
/// open must behave exactly like one without them. Bit 0 truncate, 1 append, 2 create, 3 create_new, 4 write.
pub fn ro_flags(o: Options, flags: u8) -> Options {
    let o = if flags & 16 != 0 {
        o.with_write(true)
    } else {
        o
    };
    let o = if flags & 1 != 0 {
        o.with_truncate(true)
    } else {
        o
    };
    let o = if flags & 2 != 0 {
        o.with_append(true)
    } else {
        o
    };
    let o = if flags & 4 != 0 {
        o.with_create(true)
    } else {
        o
    };
    if flags & 8 != 0 {
        o.with_create_new(true)
    } else {
        o
    }
}

/// the "some earlier owner dirtied this byte" bookkeeping (C08's non-trivial rule) stops here: giant arenas exist
pub const DIRTIED_MAX: usize = 1 << 22;

pub const OPEN_NAMES: [&str; 8] = [
    "map_mut",
    "map_copy",
    "map",
    "map_copy_read_only",
    "map_mut_with_path_builder",
    "map_copy_with_path_builder",
    "map_with_path_builder",
    "map_copy_read_only_with_path_builder",
];

/// One of the eight open variants of an existing file: mode 0 map_mut, 1 map_copy, 2 map, 3 map_copy_read_only;
/// `pb` selects the `*_with_path_builder` form (the builder itself never fails). Write access is requested for
/// the writable modes only.
pub fn open_variant<A: Flavor>(
    o: Options,
    mode: u8,
    pb: bool,
    path: &std::path::Path,
) -> std::io::Result<A> {
    let pp = path.to_path_buf();
    let b = move || Ok::<_, std::io::Error>(pp);
    // bit 2 of `mode`: a copy-on-write open through a descriptor without write access (nothing is ever written to the
    // file in such a session, so none is needed)
    let cow_write = mode & 4 == 0;
    unsafe {
        match (mode & 3, pb) {
            (0, false) => o.with_write(true).map_mut::<A, _>(path),
            (1, false) => o.with_write(cow_write).map_copy::<A, _>(path),
            (2, false) => o.map::<A, _>(path),
            (_, false) => o.map_copy_read_only::<A, _>(path),
            (0, true) => o
                .with_write(true)
                .map_mut_with_path_builder::<A, _, _>(b)
                .map_err(either_io),
            (1, true) => o
                .with_write(cow_write)
                .map_copy_with_path_builder::<A, _, _>(b)
                .map_err(either_io),
            (2, true) => o.map_with_path_builder::<A, _, _>(b).map_err(either_io),
            (_, true) => o
                .map_copy_read_only_with_path_builder::<A, _, _>(b)
                .map_err(either_io),
        }
    }
}

fn overlaps(a: (usize, usize), b: (usize, usize)) -> bool {
    a.0 < b.1 && b.0 < a.1
}

impl<A: Flavor> World<A> {
    pub fn new(cfg: &Cfg, mode: Mode) -> R<Option<Self>> {
        let opts = base_opts(cfg);
        let d = expected_data_offset::<A>(cfg);
        let cap = (d as u32).saturating_add(cfg.cap_extra);
        let page = page_size();
        let mut path = None;
        let unmounts = Rc::new(Cell::new(0u32));
        if mode.count_unmount {
            let u = unmounts.clone();
            verif::set_hook(Some(Box::new(move |e| {
                if e.kind == verif::Kind::Unmount {
                    u.set(u.get() + 1);
                }
                verif::Action::Proceed
            })));
        }
        let arena: A = match cfg.backend {
            Backend::Vec => match guard("alloc(ctor)", "C16", || {
                opts.with_capacity(cap).alloc::<A>()
            })? {
                Ok(a) => a,
                Err(e) => {
                    return Err(viol!(
                        "C16",
                        "ctor-failed",
                        "Vec constructor failed with sufficient capacity {cap}: {e}"
                    ))
                }
            },
            Backend::Anon => match guard("map_anon", "C16", || {
                opts.with_capacity(cap).map_anon::<A>()
            })? {
                Ok(a) => a,
                Err(e) => {
                    return Err(viol!(
                        "C16",
                        "ctor-failed",
                        "map_anon failed with sufficient capacity {cap}: {e}"
                    ))
                }
            },
            Backend::File => {
                let p = fresh_path();
                let _ = std::fs::remove_file(&p);
                let o = opts
                    .with_capacity(cap)
                    .with_read(true)
                    .with_write(true)
                    .with_offset(cfg.off_pages as u64 * page as u64);
                let o = if cfg.create_new {
                    o.with_create_new(true)
                } else {
                    o.with_create(true)
                };
                let r = guard("map_mut(create)", "C16", || unsafe {
                    if cfg.pb {
                        let pp = p.clone();
                        o.map_mut_with_path_builder::<A, _, std::io::Error>(move || Ok(pp))
                            .map_err(either_io)
                    } else {
                        o.map_mut::<A, _>(&p)
                    }
                })?;
                path = Some(p);
                match r {
                    Ok(a) => a,
                    Err(e) => {
                        return Err(viol!(
                            "C16",
                            "ctor-failed",
                            "map_mut(create) failed with sufficient capacity {cap}: {e}"
                        ))
                    }
                }
            }
        };
        let mut reserved_expect = vec![0u8; cfg.reserved as usize];
        if cfg.reserved > 0 {
            let s = unsafe { arena.reserved_slice_mut() };
            for (i, b) in s.iter_mut().enumerate() {
                *b = pat(0xFEED, i);
                reserved_expect[i] = *b;
            }
        }
        let capacity = arena.capacity();
        let allocated = arena.allocated();
        let w = World {
            cfg: cfg.clone(),
            mode,
            opts,
            arenas: vec![Some(Box::new(arena))],
            hs: Vec::new(),
            next_id: 1,
            high_water: allocated,
            dead: Vec::new(),
            reserved_expect,
            ro: false,
            cow: None,
            cow_nowrite: false,
            path,
            truncated: false,
            classes: BTreeSet::new(),
            trace: Vec::new(),
            unmounts,
            expected_unmounts: 0,
            inc_total: 0,
            freelist: cfg.freelist,
            opno: 0,
            page,
            dirtied: vec![false; capacity.min(DIRTIED_MAX)],
            last_discarded: 0,
            remove_on_drop: false,
            crash: None,
            live_log: Vec::new(),
            stale_list: false,
            rod_base: 0,
        };
        let mut w = w;
        if w.mode.count_unmount && cfg.backend == Backend::File && cfg.magic % 4 == 1 {
            w.a().remove_on_drop(true);
            w.remove_on_drop = true;
            w.classes.insert("remove-on-drop");
        }
        w.install_hooks();
        Ok(Some(w))
    }

    /// Wraps an already opened arena (C06 recovery): the given ranges are handed-out, persistent ranges.
    pub fn adopt(cfg: &Cfg, mode: Mode, arena: A, path: Option<PathBuf>, live: &[LiveRec]) -> Self {
        let capacity = arena.capacity();
        let allocated = arena.allocated();
        let reserved_expect = arena.reserved_slice().to_vec();
        let hs = live
            .iter()
            .map(|l| H {
                obj: None,
                kind: HKind::Bytes,
                ty: 0,
                off: l.off,
                cap: l.cap,
                boff: l.off,
                bcap: l.cap,
                expect: l.expect.clone(),
                embeds: 0,
                via: 0,
                detached: true,
                drop_id: None,
                zst_written: None,
                id: l.id,
            })
            .collect();
        let mut w = World {
            cfg: cfg.clone(),
            mode,
            opts: base_opts(cfg),
            arenas: vec![Some(Box::new(arena))],
            hs,
            next_id: 1_000_000,
            high_water: allocated.max(capacity),
            dead: Vec::new(),
            reserved_expect,
            ro: false,
            cow: None,
            cow_nowrite: false,
            path,
            truncated: false,
            classes: BTreeSet::new(),
            trace: Vec::new(),
            unmounts: Rc::new(Cell::new(0)),
            expected_unmounts: 0,
            inc_total: 0,
            freelist: cfg.freelist,
            opno: 0,
            page: page_size(),
            dirtied: vec![false; capacity.min(DIRTIED_MAX)],
            last_discarded: 0,
            remove_on_drop: false,
            crash: None,
            live_log: Vec::new(),
            stale_list: false,
            rod_base: 0,
        };
        w.install_hooks();
        w
    }

    pub fn aref(&self, ix: usize) -> &'static A {
        let b: &A = self.arenas[ix].as_ref().expect("live arena");
        unsafe { &*(b as *const A) }
    }

    pub fn first(&self) -> usize {
        self.arenas
            .iter()
            .position(|a| a.is_some())
            .expect("at least one arena value")
    }

    pub fn a(&self) -> &'static A {
        self.aref(self.first())
    }

    /// C16, after the interpreter had to stop at a failure of another property (for instance a cursor
    /// that left [data_offset, capacity]): "history so far + a few small allocations" is a history too,
    /// and whatever else went wrong the arena must not write into the user's reserved prefix.
    pub fn reserved_epilogue(&mut self) -> R {
        if self.ro || self.arenas.iter().all(|a| a.is_none()) {
            return Ok(());
        }
        let arena = self.a();
        let d = arena.data_offset();
        for n in [1u32, 8, (self.cfg.reserved.min(64) + 8) as u32] {
            let r = std::panic::catch_unwind(std::panic::AssertUnwindSafe(|| {
                alloc_bytes(arena, n, false)
                    .map(|h| (h.offset(), h.capacity(), std::mem::forget(h)))
            }));
            if let Ok(Ok((off, cap, _))) = r {
                ensure!(cap == 0 || off >= d, "C16", "allocation-in-prefix", "after the failure above alloc_bytes({n}) returned [{off}, {}) in front of data_offset() {d}", off + cap);
            }
        }
        let rs = arena.reserved_slice();
        ensure!(rs == &self.reserved_expect[..], "C16", "reserved-written", "reserved prefix was modified by an arena operation (an allocation made after the failure above)");
        Ok(())
    }

    fn live_arena_ixs(&self) -> Vec<usize> {
        self.arenas
            .iter()
            .enumerate()
            .filter(|(_, a)| a.is_some())
            .map(|(i, _)| i)
            .collect()
    }

    pub fn snap(&self) -> Snap {
        let a = self.a();
        let fl = a.fl();
        Snap {
            allocated: a.allocated(),
            discarded: a.discarded(),
            remaining: a.remaining(),
            capacity: a.capacity(),
            minseg: a.minimum_segment_size(),
            refs: a.refs(),
            fl: fl.nodes,
            fl_complete: fl.complete,
        }
    }

    fn fresh_id(&mut self) -> u32 {
        let v = self.next_id;
        self.next_id += 1;
        v
    }

    fn resolve(&self, s: Size, pre: &Snap) -> u32 {
        let clamp = |v: i64| -> u32 { v.clamp(0, u32::MAX as i64) as u32 };
        match s {
            Size::Abs(v) => v,
            Size::Rem(d) => clamp(pre.remaining as i64 + d as i64),
            Size::Seg(which, d) => {
                if pre.fl.is_empty() {
                    clamp(16 + d as i64)
                } else {
                    let ix = match which {
                        0 => 0,
                        1 => pre.fl.len() - 1,
                        _ => pre.fl.len() / 2,
                    };
                    clamp(pre.fl[ix].1 as i64 + d as i64)
                }
            }
            Size::MaxMinus(k) => u32::MAX - k as u32,
            Size::WrapAt(d) => clamp(u32::MAX as i64 - pre.allocated as i64 + d as i64),
            Size::Half(d) => clamp((1i64 << 31) + d as i64),
            Size::Cap(d) => clamp(pre.capacity as i64 + d as i64),
        }
    }

    /// memory() with the 4 padding bytes at the end of the in-memory header zeroed: they are struct
    /// padding, whose content the language leaves unspecified
    pub fn mem_comparable(&self) -> Vec<u8> {
        // every byte: the header's tail padding used to be masked here as "unspecified" - it is part of memory(), it
        // goes into files and checksums, and the statement says "the bytes ... are identical" (fix e699a28 / section 10)
        self.mem().to_vec()
    }

    /// What a kill at this operation boundary leaves behind. For a file-backed writable arena that is the file as the
    /// page cache holds it - read through the file system, not through the arena's own view of its memory (the two are
    /// the same bytes for a shared mapping, which is exactly what is being checked); otherwise memory().
    pub fn crash_bytes(&mut self) -> Vec<u8> {
        let cap = self.a().capacity();
        match (&self.path, self.cow.is_some() || self.ro) {
            (Some(p), false) => {
                let off = self.cfg.off_pages as usize * self.page;
                let f = std::fs::read(p).unwrap_or_default();
                self.classes.insert("crash-snapshot-read-from-file");
                f.get(off..)
                    .map(|b| b[..b.len().min(cap)].to_vec())
                    .unwrap_or_default()
            }
            _ => self.mem().to_vec(),
        }
    }

    pub fn mem(&self) -> &'static [u8] {
        let a = self.a();
        unsafe { std::slice::from_raw_parts(a.raw_ptr(), a.capacity()) }
    }

    // ---------------------------------------------------------------- invariants after every step

    pub fn check_invariants(&mut self, post: &Snap) -> R {
        let a = self.a();
        let d = a.data_offset();
        // C16: remaining law, reserved prefix
        ensure!(
            post.remaining == post.capacity.saturating_sub(post.allocated),
            "C16",
            "remaining-law",
            "remaining()={} but capacity()-allocated()={}-{}",
            post.remaining,
            post.capacity,
            post.allocated
        );
        // C20: monotone (clear and the roll-back of a copy-on-write session reset the baseline themselves)
        ensure!(
            post.discarded >= self.last_discarded,
            "C20",
            "discarded-decreased",
            "discarded() went from {} to {} (op {})",
            self.last_discarded,
            post.discarded,
            self.opno
        );
        self.last_discarded = post.discarded;
        let rs = a.reserved_slice();
        ensure!(
            rs.len() == self.cfg.reserved as usize,
            "C16",
            "reserved-len",
            "reserved_slice().len()={} configured {}",
            rs.len(),
            self.cfg.reserved
        );
        ensure!(
            rs == &self.reserved_expect[..],
            "C16",
            "reserved-written",
            "reserved prefix was modified by an arena operation"
        );
        // C16: the descriptive accessors of every live arena value (clones included) report the mode and options
        // the arena was created / opened with, whatever has happened since
        for ix in self.live_arena_ixs() {
            self.check_accessors(self.aref(ix), ix, post)?;
        }
        // cursor in range (C01 relies on it)
        ensure!(
            post.allocated >= d && post.allocated <= post.capacity,
            "C01",
            "cursor-range",
            "allocated()={} outside [data_offset={}, capacity={}]",
            post.allocated,
            d,
            post.capacity
        );
        if post.allocated > self.high_water {
            self.high_water = post.allocated;
        }
        // C01: live ranges
        let mem = self.mem();
        let mut rs: Vec<(usize, usize, usize)> = Vec::with_capacity(self.hs.len());
        for (i, h) in self.hs.iter().enumerate() {
            if h.cap == 0 {
                continue;
            }
            ensure!(
                h.off >= d,
                "C01",
                "below-data-offset",
                "handle #{i} range [{}, {}) starts below data_offset {d}",
                h.off,
                h.off + h.cap
            );
            ensure!(
                h.off + h.cap <= post.allocated,
                "C01",
                "above-cursor",
                "handle #{i} range [{}, {}) extends above allocated()={}",
                h.off,
                h.off + h.cap,
                post.allocated
            );
            ensure!(
                mem[h.off..h.off + h.cap] == h.expect[..],
                "C01",
                "bytes-changed",
                "bytes of live handle #{i} [{}, {}) changed without a write through it (op {})",
                h.off,
                h.off + h.cap,
                self.opno
            );
            rs.push((h.off, h.off + h.cap, i));
        }
        rs.sort();
        for w in rs.windows(2) {
            ensure!(
                w[0].1 <= w[1].0,
                "C01",
                "overlap",
                "live handles #{} [{}, {}) and #{} [{}, {}) overlap",
                w[0].2,
                w[0].0,
                w[0].1,
                w[1].2,
                w[1].0,
                w[1].1
            );
        }
        // C10: well-formed free list
        // (after a raw rewind that left segments above the cursor - the open known finding - the list is not judged:
        // the history goes on to the divergence the finding is about)
        if !self.mode.lenient && !self.stale_list {
            self.check_freelist(post, &rs)?;
        }
        Ok(())
    }

    fn check_accessors(&self, a: &A, ix: usize, post: &Snap) -> R {
        let cfg = &self.cfg;
        let file = self.path.is_some();
        let want_d = expected_data_offset::<A>(cfg);
        ensure!(
            a.data_offset() == want_d,
            "C16",
            "data-offset",
            "arena value #{ix}: data_offset()={} but Options says {want_d} (op {})",
            a.data_offset(),
            self.opno
        );
        ensure!(
            a.unify() == (cfg.unify || file),
            "C16",
            "acc-unify",
            "arena value #{ix}: unify()={} configured {} file-backed {file}",
            a.unify(),
            cfg.unify
        );
        ensure!(
            a.read_only() == self.ro,
            "C16",
            "acc-read-only",
            "arena value #{ix}: read_only()={} opened read-only {}",
            a.read_only(),
            self.ro
        );
        ensure!(
            a.is_map() == (cfg.backend != Backend::Vec),
            "C16",
            "acc-is-map",
            "arena value #{ix}: is_map()={} for {:?}",
            a.is_map(),
            cfg.backend
        );
        ensure!(
            a.is_ondisk() == file && a.is_inmemory() == !file,
            "C16",
            "acc-ondisk",
            "arena value #{ix}: is_ondisk()={} is_inmemory()={} for {:?}",
            a.is_ondisk(),
            a.is_inmemory(),
            cfg.backend
        );
        ensure!(
            a.is_map_anon() == (cfg.backend == Backend::Anon) && a.is_map_file() == file,
            "C16",
            "acc-map-kind",
            "arena value #{ix}: is_map_anon()={} is_map_file()={} for {:?}",
            a.is_map_anon(),
            a.is_map_file(),
            cfg.backend
        );
        ensure!(
            a.magic_version() == cfg.magic && a.version() == 0,
            "C16",
            "acc-magic",
            "arena value #{ix}: magic_version()={} version()={} configured {}",
            a.magic_version(),
            a.version(),
            cfg.magic
        );
        ensure!(
            a.page_size() == self.page,
            "C16",
            "acc-page-size",
            "arena value #{ix}: page_size()={} sysconf {}",
            a.page_size(),
            self.page
        );
        ensure!(
            a.reserved_bytes() == cfg.reserved as usize,
            "C16",
            "acc-reserved-bytes",
            "arena value #{ix}: reserved_bytes()={} configured {}",
            a.reserved_bytes(),
            cfg.reserved
        );
        ensure!(
            a.path().is_some() == file,
            "C16",
            "acc-path",
            "arena value #{ix}: path() is {} for a {} arena",
            if a.path().is_some() { "Some" } else { "None" },
            if file { "file-backed" } else { "in-memory" }
        );
        // every value of one arena describes the same arena
        ensure!(
            a.capacity() == post.capacity && a.allocated() == post.allocated && a.remaining() == post.remaining && a.minimum_segment_size() == post.minseg,
            "C16", "acc-clone-differs",
            "arena value #{ix} reports capacity {} allocated {} remaining {} min segment {}, value #{} reports {} {} {} {}",
            a.capacity(), a.allocated(), a.remaining(), a.minimum_segment_size(), self.first(), post.capacity, post.allocated, post.remaining, post.minseg
        );
        Ok(())
    }

    fn check_freelist(&self, post: &Snap, live: &[(usize, usize, usize)]) -> R {
        let d = self.a().data_offset();
        ensure!(post.fl_complete, "C10", "walk-incomplete", "free-list walk did not terminate cleanly (cycle, misaligned or out-of-range offset): {:?}", post.fl);
        if self.freelist == 0 {
            ensure!(
                post.fl.is_empty(),
                "C10",
                "none-has-nodes",
                "Freelist::None arena has free-list nodes {:?}",
                post.fl
            );
        }
        let mut ext: Vec<(usize, usize)> = Vec::with_capacity(post.fl.len());
        for (k, &(off, size, _)) in post.fl.iter().enumerate() {
            let (off, size) = (off as usize, size as usize);
            ensure!(
                off % 8 == 0,
                "C10",
                "node-misaligned",
                "node {k} at {off} not 8-aligned"
            );
            ensure!(
                off >= d,
                "C10",
                "node-below-data",
                "node {k} at {off} below data_offset {d}"
            );
            ensure!(
                size != 0,
                "C10",
                "node-size-zero",
                "node {k} at {off} has size field 0 at a quiescent point"
            );
            ensure!(
                off + 8 + size <= self.high_water.max(post.allocated),
                "C10",
                "node-above-cursor",
                "node {k} extent [{off}, {}) above the highest cursor {}",
                off + 8 + size,
                self.high_water.max(post.allocated)
            );
            ext.push((off, off + 8 + size));
        }
        for k in 1..post.fl.len() {
            let (p, c) = (post.fl[k - 1].1, post.fl[k].1);
            if self.freelist == 1 {
                ensure!(
                    p >= c,
                    "C10",
                    "order-desc",
                    "Optimistic list not descending: {:?}",
                    post.fl
                );
            } else {
                ensure!(
                    p <= c,
                    "C10",
                    "order-asc",
                    "Pessimistic list not ascending: {:?}",
                    post.fl
                );
            }
        }
        let mut s = ext.clone();
        s.sort();
        for w in s.windows(2) {
            ensure!(
                w[0].1 <= w[1].0,
                "C10",
                "nodes-overlap",
                "free segments [{}, {}) and [{}, {}) overlap",
                w[0].0,
                w[0].1,
                w[1].0,
                w[1].1
            );
        }
        for e in &ext {
            for l in live {
                ensure!(
                    !overlaps(*e, (l.0, l.1)),
                    "C10",
                    "node-overlaps-live",
                    "free segment [{}, {}) overlaps live handle #{} [{}, {})",
                    e.0,
                    e.1,
                    l.2,
                    l.0,
                    l.1
                );
            }
        }
        Ok(())
    }

    // ---------------------------------------------------------------- steps

    fn live_recs(&self) -> Vec<LiveRec> {
        self.hs
            .iter()
            .filter(|h| h.cap > 0)
            .map(|h| LiveRec {
                id: h.id,
                off: h.off,
                cap: h.cap,
                expect: h.expect.clone(),
            })
            .collect()
    }

    /// (Re)installs the thread hook this world needs: crash-point recorder, step budget, unmount counter.
    pub fn install_hooks(&mut self) {
        if !(self.mode.crash || self.mode.budget.is_some()) {
            return;
        }
        let a = self.a();
        let sh = match &self.crash {
            Some(s) => s.clone(),
            None => {
                let s = Rc::new(CrashShared {
                    ptr: Cell::new(a.raw_ptr()),
                    cap: Cell::new(a.capacity()),
                    cur_op: Cell::new(0),
                    step: Cell::new(0),
                    enabled: Cell::new(false),
                    snaps: Default::default(),
                    budget_used: Cell::new(0),
                });
                self.crash = Some(s.clone());
                s
            }
        };
        sh.ptr.set(a.raw_ptr());
        sh.cap.set(a.capacity());
        let record = self.mode.crash;
        let budget = self.mode.budget;
        let unmounts = self.unmounts.clone();
        verif::set_hook(Some(Box::new(move |e| {
            if e.kind == verif::Kind::Unmount {
                unmounts.set(unmounts.get() + 1);
                return verif::Action::Proceed;
            }
            if !sh.enabled.get() || !IN_API.with(|c| c.get()) {
                return verif::Action::Proceed;
            }
            if !e.before {
                // the budget counts consecutive accesses that change nothing: a single thread that keeps
                // re-reading unchanged words is in a loop it can never leave
                if e.wrote && e.old != e.new {
                    sh.budget_used.set(0);
                }
                return verif::Action::Proceed;
            }
            if let Some(b) = budget {
                let u = sh.budget_used.get() + 1;
                sh.budget_used.set(u);
                if u > b {
                    sh.enabled.set(false);
                    std::panic::resume_unwind(Box::new(BudgetExceeded));
                }
            }
            if record {
                let st = sh.step.get() + 1;
                sh.step.set(st);
                let bytes =
                    unsafe { std::slice::from_raw_parts(sh.ptr.get(), sh.cap.get()) }.to_vec();
                sh.snaps.borrow_mut().push(CrashSnap {
                    op: sh.cur_op.get(),
                    step: st,
                    what: format!("{:?}", e.kind),
                    bytes,
                });
            }
            verif::Action::Proceed
        })));
    }

    pub fn step(&mut self, ix: usize, op: &Op) -> R {
        if let Some(sh) = self.crash.clone() {
            sh.cur_op.set(ix);
            sh.step.set(0);
            sh.budget_used.set(0);
            let before = self.live_recs();
            sh.enabled.set(true);
            let r = self.step_inner(ix, op);
            sh.enabled.set(false);
            r?;
            if self.mode.crash {
                let after = self.live_recs();
                self.live_log.push((before, after, format!("{op:?}")));
                let a = self.a();
                sh.ptr.set(a.raw_ptr());
                sh.cap.set(a.capacity());
                let bytes = self.crash_bytes();
                sh.snaps.borrow_mut().push(CrashSnap {
                    op: ix,
                    step: u32::MAX,
                    what: "end-of-op".into(),
                    bytes,
                });
            }
            return Ok(());
        }
        self.step_inner(ix, op)
    }

    fn step_inner(&mut self, ix: usize, op: &Op) -> R {
        self.opno = ix;
        let mut res = String::from("skip");
        let mut range = None;
        match op {
            Op::AllocBytes { n, owned, via } => {
                let pre = self.snap();
                let n = self.resolve(*n, &pre);
                (res, range) = self.do_alloc(HKind::Bytes, 0, n, *owned, *via, pre)?;
            }
            Op::AllocAligned { ty, n, owned, via } => {
                let pre = self.snap();
                let n = self.resolve(*n, &pre);
                (res, range) = self.do_alloc(HKind::Aligned, *ty as usize, n, *owned, *via, pre)?;
            }
            Op::AllocTyped { ty, owned, via } => {
                let pre = self.snap();
                (res, range) = self.do_alloc(HKind::Typed, *ty as usize, 0, *owned, *via, pre)?;
            }
            Op::Fill { slack } => {
                let pre = self.snap();
                let n = (pre.remaining as u32).saturating_sub(*slack as u32);
                if n > 0 && !self.ro {
                    (res, range) = self.do_alloc(HKind::Bytes, 0, n, false, 0, pre)?;
                }
            }
            Op::Write { h } => {
                let cands: Vec<usize> = self
                    .hs
                    .iter()
                    .enumerate()
                    .filter(|(_, h)| h.obj.is_some() && h.cap > 0)
                    .map(|(i, _)| i)
                    .collect();
                if !cands.is_empty() && !self.ro {
                    let i = cands[pick(*h, cands.len())];
                    let id = self.fresh_id();
                    self.write_handle(i, id);
                    res = "ok".into();
                }
            }
            Op::Drop { h } => {
                let cands: Vec<usize> = self
                    .hs
                    .iter()
                    .enumerate()
                    .filter(|(_, h)| h.obj.is_some())
                    .map(|(i, _)| i)
                    .collect();
                if !cands.is_empty() && !self.ro {
                    let i = cands[pick(*h, cands.len())];
                    self.do_drop(i)?;
                    res = "ok".into();
                }
            }
            Op::Detach { h } => {
                let cands: Vec<usize> = self
                    .hs
                    .iter()
                    .enumerate()
                    .filter(|(_, h)| h.obj.is_some() && !h.detached)
                    .map(|(i, _)| i)
                    .collect();
                if !cands.is_empty() {
                    let i = cands[pick(*h, cands.len())];
                    let hh = &mut self.hs[i];
                    hh.obj.as_mut().unwrap().detach();
                    hh.detached = true;
                    self.classes.insert("detach");
                    res = "ok".into();
                }
            }
            Op::DeallocDetached { h } => {
                let cands: Vec<usize> = self
                    .hs
                    .iter()
                    .enumerate()
                    .filter(|(_, h)| h.detached)
                    .map(|(i, _)| i)
                    .collect();
                if !cands.is_empty() && !self.ro {
                    let i = cands[pick(*h, cands.len())];
                    self.do_dealloc_detached(i)?;
                    res = "ok".into();
                } else if !cands.is_empty() && self.hs[cands[pick(*h, cands.len())]].obj.is_none() {
                    // a range handed out before the arena was reopened read-only: giving it back cannot work (the
                    // allocator state lives in a read-only mapping) and dealloc has no error to return - it must leave
                    // everything as it is, and above all not crash; the range stays handed out
                    let hh = &self.hs[cands[pick(*h, cands.len())]];
                    let (boff, bcap) = (hh.boff, hh.bcap);
                    let pre = self.snap();
                    let a = self.a();
                    guard("dealloc(read-only arena)", "C09", || unsafe {
                        a.dealloc(boff as u32, bcap as u32)
                    })?;
                    let post = self.snap();
                    ensure!(pre == post, "C09", "ro-dealloc-changed", "dealloc({boff}, {bcap}) on a read-only arena changed it: {pre:?} -> {post:?}");
                    self.classes.insert("dealloc-on-read-only");
                    res = "readonly".into();
                }
            }
            Op::CloneArena => {
                if self.arenas.iter().filter(|a| a.is_some()).count() < 6 {
                    let pre = self.snap();
                    let c = guard("Arena::clone", "C13", || self.a().clone())?;
                    self.arenas.push(Some(Box::new(c)));
                    let post = self.snap();
                    ensure!(
                        post.refs == pre.refs + 1,
                        "C13",
                        "refs-clone",
                        "refs() {} -> {} after clone",
                        pre.refs,
                        post.refs
                    );
                    self.classes.insert("clone");
                    res = "ok".into();
                }
            }
            Op::DropArena { a } => {
                let live = self.live_arena_ixs();
                let cands: Vec<usize> = live
                    .iter()
                    .copied()
                    .filter(|ix| {
                        !self
                            .hs
                            .iter()
                            .any(|h| h.obj.is_some() && h.embeds == 0 && h.via == *ix)
                    })
                    .collect();
                if live.len() >= 2 && !cands.is_empty() {
                    let ix = cands[pick(*a, cands.len())];
                    let pre = self.snap();
                    let b = self.arenas[ix].take().unwrap();
                    guard("Arena::drop", "C13", move || drop(b))?;
                    let post = self.snap();
                    ensure!(
                        post.refs + 1 == pre.refs,
                        "C13",
                        "refs-drop",
                        "refs() {} -> {} after dropping an arena value",
                        pre.refs,
                        post.refs
                    );
                    self.check_unmounts("drop of a non-last arena value")?;
                    if ix == 0 {
                        self.classes.insert("drop-original-first");
                    }
                    res = "ok".into();
                }
            }
            Op::DiscardFreelist => {
                res = self.do_discard()?;
            }
            Op::SetMinSeg { v } => {
                if !self.ro {
                    let pre = self.snap();
                    guard("set_minimum_segment_size", "C11", || {
                        self.a().set_minimum_segment_size(*v)
                    })?;
                    let post = self.snap();
                    let mut e = pre.clone();
                    e.minseg = *v;
                    ensure!(post == e, "C11", "minseg-effect", "set_minimum_segment_size({v}) changed more than the setting: {pre:?} -> {post:?}");
                    res = "ok".into();
                }
            }
            Op::IncDiscarded { v } => {
                if !self.ro {
                    let pre = self.snap();
                    self.inc_total = self.inc_total.saturating_add(*v as u64);
                    guard("increase_discarded", "C20", || {
                        self.a().increase_discarded(*v)
                    })?;
                    let post = self.snap();
                    let sum = pre.discarded as u64 + *v as u64;
                    if sum <= u32::MAX as u64 {
                        let mut e = pre.clone();
                        e.discarded = sum as u32;
                        ensure!(post == e, "C20", "increase-discarded", "increase_discarded({v}): discarded {} -> {} (state {pre:?} -> {post:?})", pre.discarded, post.discarded);
                    } else {
                        // the counter is a u32: "raises it by n" cannot hold, "never decreases" must (and nothing else moves)
                        self.classes.insert("discarded-beyond-u32");
                        let mut e = pre.clone();
                        e.discarded = post.discarded;
                        ensure!(post.discarded >= pre.discarded && post == e, "C20", "discarded-decreased", "increase_discarded({v}) at discarded()={}: counter went to {} (state {pre:?} -> {post:?})", pre.discarded, post.discarded);
                    }
                    res = "ok".into();
                }
            }
            Op::Rewind { pos, raw } => {
                if !self.ro {
                    self.do_rewind(*pos, *raw)?;
                    res = "ok".into();
                } else {
                    self.do_rewind_ro(*pos)?;
                    res = "readonly".into();
                }
            }
            Op::Clear => {
                if !self.ro {
                    self.do_clear()?;
                    res = "ok".into();
                }
            }
            Op::Truncate { n } => {
                if !A::SYNC {
                    res = self.do_truncate(*n)?;
                }
            }
            Op::Flush => {
                // rotate through the flush family; none of them may fail or change anything observable
                let a = self.a();
                let pre = self.snap();
                let (al, d) = (a.allocated(), a.data_offset());
                let which = if ix % 16 == 15 { 7 } else { ix % 7 };
                let r = guard("flush*", "C05", || match which {
                    0 => a.flush(),
                    1 => a.flush_async(),
                    2 => a.flush_range(0, al),
                    3 => a.flush_async_range(d.min(al), al - d.min(al)),
                    4 => a.flush_header(),
                    5 => a.flush_async_header(),
                    6 => a.flush_header_and_range(d.min(al), al - d.min(al)),
                    _ => a.flush_async_header_and_range(d.min(al), al - d.min(al)),
                })?;
                ensure!(
                    r.is_ok(),
                    "C05",
                    "flush-failed",
                    "flush variant {which} failed: {:?}",
                    r
                );
                let post = self.snap();
                ensure!(
                    pre == post,
                    "C05",
                    "flush-side-effect",
                    "flush variant {which} changed state {pre:?} -> {post:?}"
                );
                res = "ok".into();
            }
            Op::Reopen {
                mode,
                cap,
                create,
                pb,
                flags,
            } => {
                // a file marked remove-on-drop disappears when it is closed: there is nothing to reopen
                if self.cfg.backend == Backend::File && !self.remove_on_drop {
                    self.do_reopen(*mode, *cap, *create, *pb, *flags)?;
                    res = "ok".into();
                }
            }
        }
        let post = self.snap();
        self.check_invariants(&post)?;
        if self.mode.trace {
            let memhash = if self.mode.memhash {
                crate::runner::fnv(&self.mem_comparable())
            } else {
                0
            };
            self.trace.push(Obs {
                op: ix,
                res,
                range,
                snap: post,
                memhash,
                prefix: if self.mode.prefix {
                    let a = self.a();
                    let (r, d) = (a.reserved_bytes().min(a.capacity()), a.data_offset().min(a.capacity()));
                    self.mem().get(r..d).map(|b| b.to_vec()).unwrap_or_default()
                } else {
                    Vec::new()
                },
            });
        }
        Ok(())
    }

    fn write_handle(&mut self, i: usize, id: u32) {
        let h = &mut self.hs[i];
        let Some(obj) = h.obj.as_mut() else { return };
        if obj.write(id) {
            for k in 0..h.cap {
                h.expect[k] = pat(id, k);
                if h.off + k < self.dirtied.len() {
                    self.dirtied[h.off + k] = true;
                }
            }
        }
    }

    fn is_huge(&self, kind: HKind, ty: usize, n: u32, pre: &Snap) -> bool {
        let t = &TYPES[ty];
        let need = match kind {
            HKind::Bytes => n as u64,
            HKind::Aligned => t.size as u64 + t.align as u64 + n as u64,
            HKind::Typed => t.size as u64 + t.align as u64,
        };
        pre.allocated as u64 + need > u32::MAX as u64 || need > pre.capacity as u64
    }

    #[allow(clippy::too_many_arguments)]
    fn do_alloc(
        &mut self,
        kind: HKind,
        ty: usize,
        n: u32,
        owned: bool,
        via: u16,
        pre: Snap,
    ) -> R<(String, Option<(usize, usize, usize, usize)>)> {
        let live = self.live_arena_ixs();
        let via = live[pick(via, live.len())];
        let arena = self.aref(via);
        let t = TYPES[ty];
        let (tsize, talign) = (t.size, t.align);
        let d = arena.data_offset();
        // a ZST aligned request degenerates to a byte request in the implementation and in the statement
        let zero = match kind {
            HKind::Bytes => n == 0,
            HKind::Aligned => tsize == 0 && n == 0,
            HKind::Typed => tsize == 0,
        };
        let huge = self.is_huge(kind, ty, n, &pre);
        if huge {
            self.classes.insert("huge-request");
        }
        let what = match kind {
            HKind::Bytes => "alloc_bytes",
            HKind::Aligned => "alloc_aligned_bytes",
            HKind::Typed => "alloc",
        };
        let r = guard(what, "C04", || match kind {
            HKind::Bytes => alloc_bytes(arena, n, owned),
            HKind::Aligned => alloc_aligned(arena, ty, n, owned),
            HKind::Typed => alloc_typed(arena, ty, owned),
        })?;
        let post = self.snap();
        // fresh-space arithmetic in u64 (reference)
        let align_up = |x: u64, a: u64| (x + a - 1) & !(a - 1);
        // a zero-sized T that needs no alignment (or a request for no bytes at all) is a plain byte request
        let plain_zst = tsize == 0 && (talign == 1 || n == 0);
        let (fresh_start, fresh_end) = match kind {
            HKind::Bytes => (pre.allocated as u64, pre.allocated as u64 + n as u64),
            HKind::Aligned if plain_zst => (pre.allocated as u64, pre.allocated as u64 + n as u64),
            HKind::Aligned => {
                let s = align_up(pre.allocated as u64, talign as u64);
                (s, s + tsize as u64 + n as u64)
            }
            HKind::Typed => {
                let s = align_up(pre.allocated as u64, talign as u64);
                (s, s + tsize as u64)
            }
        };
        let fresh_fits = fresh_end <= pre.capacity as u64;
        let (need_min, need_max): (u64, u64) = match kind {
            HKind::Bytes => (n as u64, n as u64),
            HKind::Aligned if plain_zst => (n as u64, n as u64),
            HKind::Aligned => (
                tsize as u64 + n as u64,
                tsize as u64 + talign as u64 - 1 + n as u64,
            ),
            HKind::Typed => (tsize as u64, tsize as u64 + talign as u64 - 1),
        };
        let res = res_kind(&r).to_string();
        match r {
            Err(e) => {
                if self.ro {
                    ensure!(
                        matches!(e, Error::ReadOnly),
                        "C04",
                        "ro-error-kind",
                        "{what} on a read-only arena returned {e:?}"
                    );
                } else {
                    ensure!(
                        matches!(e, Error::InsufficientSpace { .. }),
                        "C04",
                        "error-kind",
                        "{what} failed with {e:?}"
                    );
                    ensure!(
                        !zero,
                        "C03",
                        "zero-size-refused",
                        "zero-sized {what} request refused on a writable arena: {e:?}"
                    );
                }
                ensure!(
                    pre.allocated == post.allocated
                        && pre.discarded == post.discarded
                        && pre.remaining == post.remaining
                        && pre.fl == post.fl,
                    "C04",
                    "failed-call-changed-state",
                    "{what}({n}) failed ({e:?}) but changed state: {pre:?} -> {post:?}"
                );
                if !self.ro && !zero {
                    if self.truncated {
                        ensure!(!fresh_fits, "C18", "fits-but-refused", "after truncate: {what}({n}) fits fresh space (allocated {} capacity {}) but failed: {e:?}", pre.allocated, pre.capacity);
                    }
                    if !fresh_fits && !self.mode.lenient {
                        self.policy_on_err(&pre, need_min, need_max, what, n, &e)?;
                    }
                }
                if !fresh_fits {
                    self.classes.insert("alloc-failed-full");
                }
                Ok((res, None))
            }
            Ok(obj) => {
                let mut guard_obj = NoDrop(Some(obj));
                let obj = guard_obj.0.as_mut().unwrap();
                let (off, cap, boff, bcap) = (
                    obj.offset(),
                    obj.capacity(),
                    obj.buffer_offset(),
                    obj.buffer_capacity(),
                );
                ensure!(
                    !self.ro || zero,
                    "C04",
                    "ro-alloc-succeeded",
                    "{what} succeeded on a read-only arena"
                );
                if zero {
                    ensure!(
                        cap == 0,
                        "C03",
                        "zero-size-capacity",
                        "zero-sized {what} returned capacity {cap}"
                    );
                    ensure!(
                        post.allocated == pre.allocated,
                        "C03",
                        "zero-size-consumed",
                        "zero-sized {what} moved allocated() {} -> {}",
                        pre.allocated,
                        post.allocated
                    );
                    if pre.remaining == 0 {
                        self.classes.insert("zero-size-on-full");
                    }
                    // a zero-sized typed owned handle may embed an arena clone; measure and keep it so refs() stays modelled
                    let embeds = post.refs - pre.refs.min(post.refs);
                    let pre2 = self.snap();
                    let mut obj = guard_obj.0.take().unwrap();
                    // a zero-sized value with a destructor (guard / token type): written through the handle it must
                    // have been dropped exactly once by the time its non-detached handle is gone (C13) - whether the
                    // implementation drops it at once or with the handle is its own business
                    let mut zst_written = None;
                    if kind == HKind::Typed && t.needs_drop {
                        let b = zst_drops();
                        guard("write(zero-size drop value)", "C13", || obj.write(0))?;
                        let dw = zst_drops() - b;
                        ensure!(
                            dw <= 1,
                            "C13",
                            "zst-value-drop-count",
                            "writing one zero-sized drop value ran its destructor {dw} times"
                        );
                        zst_written = Some(dw);
                        self.classes.insert("zst-drop-value-written");
                    }
                    if embeds == 0 || self.mode.drop_zero_now {
                        let b = zst_drops();
                        guard("drop(zero-size handle)", "C01", move || drop(obj))?;
                        let post2 = self.snap();
                        let mut pre2 = pre2;
                        pre2.refs -= embeds;
                        ensure!(
                            pre2 == post2,
                            "C01",
                            "zero-size-drop-effect",
                            "dropping a zero-sized handle changed state {pre2:?} -> {post2:?}"
                        );
                        if let Some(dw) = zst_written {
                            let total = dw + (zst_drops() - b);
                            ensure!(total == 1, "C13", "zst-value-drop-count", "a zero-sized drop value written into alloc::<{}>() (owned={owned}) was dropped {total} times by the time its handle was dropped", t.name);
                        }
                    } else {
                        let id = self.fresh_id();
                        self.hs.push(H {
                            obj: Some(obj),
                            kind,
                            ty,
                            off: 0,
                            cap: 0,
                            boff: 0,
                            bcap: 0,
                            expect: vec![],
                            embeds,
                            via,
                            detached: false,
                            drop_id: None,
                            zst_written,
                            id,
                        });
                    }
                    return Ok((res, Some((off, cap, boff, bcap))));
                }
                // an owned handle whose extent is already free again at return is also C13's business (the borrowed
                // handle inside to_owned released it): such failures carry both tags
                let wrap_prop = if huge {
                    "C04"
                } else if owned {
                    "C01|C13"
                } else {
                    "C01"
                };
                // C04 / C01: inside the arena, arithmetic did not wrap
                ensure!(
                    off >= d && (off as u64 + cap as u64) <= post.allocated as u64 && post.allocated <= post.capacity,
                    wrap_prop, "range-out-of-arena",
                    "{what}({n}) returned range [{off}, {}) with allocated()={} capacity()={} data_offset={d}", off as u64 + cap as u64, post.allocated, post.capacity
                );
                ensure!(
                    cap as u64 <= pre.capacity as u64,
                    wrap_prop,
                    "capacity-exceeds-arena",
                    "{what}({n}) returned capacity {cap} larger than the arena ({})",
                    pre.capacity
                );
                // C03: capacity and alignment (C04 as well for a huge request: "a handle satisfying C01/C03, or an error")
                let c03: &'static str = if huge { "C03|C04" } else { "C03" };
                match kind {
                    HKind::Bytes => ensure!(
                        cap == n as usize,
                        c03,
                        "bytes-capacity",
                        "alloc_bytes({n}) returned capacity {cap}"
                    ),
                    HKind::Aligned => {
                        // also for zero-sized T with an alignment: the statement quantifies over sizes 0..=64
                        ensure!(off % talign == 0, c03, "aligned-offset", "alloc_aligned_bytes::<{}>({n}) offset {off} not a multiple of {talign}", t.name);
                        ensure!(
                            cap as u64 >= tsize as u64 + n as u64,
                            c03,
                            "aligned-capacity",
                            "alloc_aligned_bytes::<{}>({n}) capacity {cap} < {}",
                            t.name,
                            tsize as u64 + n as u64
                        );
                    }
                    HKind::Typed => {
                        ensure!(
                            cap == tsize,
                            "C03",
                            "typed-capacity",
                            "alloc::<{}>() capacity {cap} != size_of {tsize}",
                            t.name
                        );
                        ensure!(
                            off % talign == 0,
                            "C03",
                            "typed-offset",
                            "alloc::<{}>() offset {off} not a multiple of {talign}",
                            t.name
                        );
                        if talign <= self.cfg.max_align as usize {
                            let addr = obj.addr();
                            ensure!(
                                addr % talign == 0,
                                "C03",
                                "typed-address",
                                "alloc::<{}>() pointer {addr:#x} not aligned to {talign}",
                                t.name
                            );
                            let raw = arena.raw_ptr() as usize + off;
                            ensure!(raw % talign == 0, "C03", "typed-address", "alloc::<{}>() arena address {raw:#x} (offset {off}) not aligned to {talign}", t.name);
                        }
                    }
                }
                // C01: disjoint from every live range, from dead (discarded) ranges (C20) and from free segments (C10)
                let rng = (off, off + cap);
                for (i, h) in self.hs.iter().enumerate() {
                    if h.cap > 0 {
                        ensure!(
                            !overlaps(rng, (h.off, h.off + h.cap)),
                            wrap_prop,
                            "overlap",
                            "{what}({n}) returned [{}, {}) overlapping live handle #{i} [{}, {})",
                            rng.0,
                            rng.1,
                            h.off,
                            h.off + h.cap
                        );
                    }
                }
                for dr in &self.dead {
                    ensure!(
                        !overlaps(rng, *dr),
                        "C20",
                        "discarded-range-reused",
                        "{what}({n}) returned [{}, {}) reusing discarded range [{}, {})",
                        rng.0,
                        rng.1,
                        dr.0,
                        dr.1
                    );
                }
                let recycled = boff < pre.allocated;
                if recycled {
                    self.classes.insert("recycled");
                    if self.hs.iter().filter(|h| h.cap > 0).count() >= 2 {
                        self.classes.insert("recycled-with-2-live");
                    }
                    if kind != HKind::Bytes {
                        self.classes.insert("typed-recycled");
                    }
                    if post.fl.len() >= pre.fl.len() && !pre.fl.is_empty() {
                        self.classes.insert("remainder-split");
                    }
                }
                if kind != HKind::Bytes && tsize > 0 && pre.allocated % talign != 0 && !recycled {
                    self.classes.insert("typed-at-odd-cursor");
                }
                // C08: zero-filled
                let mem = self.mem();
                if kind == HKind::Bytes && !self.mode.lenient {
                    let bytes = &mem[off..off + cap];
                    if let Some(p) = bytes.iter().position(|b| *b != 0) {
                        return Err(viol!("C08", "not-zeroed", "alloc_bytes({n}) at [{off}, {}) byte +{p} = {:#x} (recycled={recycled})", off + cap, bytes[p]));
                    }
                    if (off..off + cap).any(|k| self.dirtied.get(k).copied().unwrap_or(false)) {
                        self.classes.insert("zeroed-dirty");
                    }
                }
                // C10 policy
                if self.freelist == 0 && !self.mode.lenient {
                    ensure!(
                        boff as u64 == pre.allocated as u64 && off as u64 == fresh_start && !recycled,
                        "C10", "none-reused",
                        "Freelist::None: {what}({n}) served at buffer_offset {boff} / offset {off}, cursor was {}", pre.allocated
                    );
                }
                if !fresh_fits && !self.mode.lenient {
                    self.policy_on_ok(&pre, &post, need_min, need_max, what, n, boff, off + cap)?;
                } else if !recycled {
                    self.classes.insert("fresh");
                }
                let embeds = post.refs - pre.refs.min(post.refs);
                ensure!(
                    post.refs >= pre.refs && embeds == usize::from(owned),
                    "C13",
                    "refs-alloc",
                    "{what} owned={owned}: refs() {} -> {}",
                    pre.refs,
                    post.refs
                );
                let id = self.fresh_id();
                let expect = mem[off..off + cap].to_vec();
                let mut h = H {
                    obj: None,
                    kind,
                    ty,
                    off,
                    cap,
                    boff,
                    bcap,
                    expect,
                    embeds,
                    via,
                    detached: false,
                    drop_id: None,
                    zst_written: None,
                    id,
                };
                let mut obj = guard_obj.0.take().unwrap();
                if t.needs_drop && kind == HKind::Typed {
                    obj.write(id);
                    h.drop_id = Some(id as u64);
                }
                h.obj = Some(obj);
                self.hs.push(h);
                if self.mode.dirty {
                    let i = self.hs.len() - 1;
                    let id = self.fresh_id();
                    self.write_handle(i, id);
                }
                Ok((res, Some((off, cap, boff, bcap))))
            }
        }
    }

    fn policy_on_err(
        &mut self,
        pre: &Snap,
        need_min: u64,
        need_max: u64,
        what: &str,
        n: u32,
        e: &Error,
    ) -> R {
        let _ = need_min;
        match self.freelist {
            1 => {
                if let Some(head) = pre.fl.first() {
                    ensure!(
                        need_max > head.1 as u64,
                        "C10", "optimistic-refused",
                        "Optimistic: {what}({n}) needs at most {need_max} bytes, largest segment has {} but the call failed: {e:?}; list {:?}", head.1, pre.fl
                    );
                }
            }
            2 => {
                ensure!(
                    !pre.fl.iter().any(|nd| nd.1 as u64 >= need_max),
                    "C10", "pessimistic-refused",
                    "Pessimistic: {what}({n}) needs at most {need_max} bytes and a segment fits, but the call failed: {e:?}; list {:?}", pre.fl
                );
            }
            _ => {}
        }
        Ok(())
    }

    #[allow(clippy::too_many_arguments)]
    fn policy_on_ok(
        &mut self,
        pre: &Snap,
        post: &Snap,
        need_min: u64,
        need_max: u64,
        what: &str,
        n: u32,
        boff: usize,
        acc_end: usize,
    ) -> R {
        if self.freelist == 0 {
            return Err(viol!(
                "C10",
                "none-reused",
                "Freelist::None: {what}({n}) succeeded although fresh space cannot satisfy it"
            ));
        }
        self.classes.insert("slow-path");
        if pre.fl.len() >= 3 {
            self.classes.insert("slow-path-3-nodes");
            let mut sizes: Vec<u32> = pre.fl.iter().map(|x| x.1).collect();
            sizes.sort();
            if sizes.windows(2).any(|w| w[0] == w[1]) {
                self.classes.insert("slow-path-3-nodes-tie");
            }
        }
        let serving = pre.fl.iter().position(|nd| nd.0 as usize == boff);
        let Some(si) = serving else {
            return Err(viol!("C10", "served-from-nowhere", "{what}({n}) succeeded without fresh space at buffer_offset {boff}, which is no free-list node: {:?}", pre.fl));
        };
        let sv = pre.fl[si];
        ensure!(
            sv.1 as u64 >= need_min,
            "C10",
            "served-too-small",
            "{what}({n}) served from node {sv:?} smaller than the request ({need_min})"
        );
        if self.freelist == 1 {
            ensure!(
                si == 0,
                "C10",
                "optimistic-not-largest",
                "Optimistic: {what}({n}) served from node #{si} {sv:?}, not the largest {:?}",
                pre.fl[0]
            );
        } else {
            let first_fit_max = pre.fl.iter().position(|nd| nd.1 as u64 >= need_max);
            let first_fit_min = pre
                .fl
                .iter()
                .position(|nd| nd.1 as u64 >= need_min)
                .unwrap();
            ensure!(
                si >= first_fit_min,
                "C10",
                "pessimistic-not-smallest",
                "Pessimistic: {what}({n}) served from node #{si} {sv:?} before the first that fits"
            );
            if let Some(f) = first_fit_max {
                ensure!(si <= f, "C10", "pessimistic-not-smallest", "Pessimistic: {what}({n}) served from node #{si} {sv:?}, but node #{f} {:?} is the smallest that fits; list {:?}", pre.fl[f], pre.fl);
            }
        }
        // new snapshot = old - serving (+ at most one remainder inside the served extent)
        let key = |v: &[(u32, u32, u32)]| -> Vec<(u32, u32)> {
            let mut k: Vec<(u32, u32)> = v.iter().map(|x| (x.0, x.1)).collect();
            k.sort();
            k
        };
        let mut old = key(&pre.fl);
        old.retain(|x| x.0 != sv.0);
        let new = key(&post.fl);
        let added: Vec<(u32, u32)> = new.iter().filter(|x| !old.contains(x)).copied().collect();
        let lost: Vec<(u32, u32)> = old.iter().filter(|x| !new.contains(x)).copied().collect();
        ensure!(
            lost.is_empty(),
            "C10",
            "other-nodes-changed",
            "{what}({n}) from node {sv:?} also changed nodes {lost:?}"
        );
        ensure!(
            added.len() <= 1,
            "C10",
            "other-nodes-changed",
            "{what}({n}) from node {sv:?} added nodes {added:?}"
        );
        if let Some(r) = added.first() {
            let ext_end = sv.0 as usize + 8 + sv.1 as usize;
            ensure!(
                r.0 as usize >= acc_end && r.0 as usize + 8 + r.1 as usize <= ext_end,
                "C10", "remainder-outside",
                "remainder node {r:?} not inside the served segment after the handed-out part (served {sv:?}, handed-out end {acc_end})"
            );
            ensure!(
                r.1 >= pre.minseg,
                "C10",
                "remainder-below-min",
                "remainder node {r:?} smaller than the minimum segment size {}",
                pre.minseg
            );
        }
        Ok(())
    }

    /// Effect of releasing `[boff, boff+bcap)` exactly once (C13 a / C20).
    fn check_release_effect(
        &mut self,
        pre: &Snap,
        post: &Snap,
        boff: usize,
        bcap: usize,
        what: &str,
    ) -> R {
        if self.mode.lenient {
            return Ok(());
        }
        let key = |v: &[(u32, u32, u32)]| -> Vec<(u32, u32)> {
            let mut k: Vec<(u32, u32)> = v.iter().map(|x| (x.0, x.1)).collect();
            k.sort();
            k
        };
        let (old, new) = (key(&pre.fl), key(&post.fl));
        let added: Vec<(u32, u32)> = new.iter().filter(|x| !old.contains(x)).copied().collect();
        let lost: Vec<(u32, u32)> = old.iter().filter(|x| !new.contains(x)).copied().collect();
        ensure!(
            lost.is_empty(),
            "C13",
            "release-changed-other-nodes",
            "{what} of [{boff}, {}) removed/changed nodes {lost:?}",
            boff + bcap
        );
        ensure!(
            post.discarded >= pre.discarded,
            "C20",
            "discarded-decreased",
            "{what}: discarded() {} -> {}",
            pre.discarded,
            post.discarded
        );
        ensure!(
            post.capacity == pre.capacity && post.minseg == pre.minseg,
            "C13",
            "release-side-effect",
            "{what} changed capacity/min segment size"
        );
        if post.allocated != pre.allocated {
            // on-top release
            ensure!(
                pre.allocated == boff + bcap && post.allocated == boff,
                "C13",
                "release-cursor",
                "{what} of [{boff}, {}) moved the cursor {} -> {}",
                boff + bcap,
                pre.allocated,
                post.allocated
            );
            ensure!(
                added.is_empty() && post.discarded == pre.discarded,
                "C13",
                "release-top-side-effect",
                "{what} on top also changed list/discarded: +{added:?} discarded {} -> {}",
                pre.discarded,
                post.discarded
            );
            self.classes.insert("release-top");
            return Ok(());
        }
        if self.freelist == 0 {
            ensure!(
                added.is_empty(),
                "C10",
                "none-has-nodes",
                "Freelist::None release created a node {added:?}"
            );
            ensure!(
                post.discarded as u64 == (pre.discarded as u64 + bcap as u64).min(u32::MAX as u64),
                "C13|C20",
                "none-release-accounting",
                "Freelist::None: {what} of {bcap} bytes not on top: discarded() {} -> {}",
                pre.discarded,
                post.discarded
            );
            self.dead.push((boff, boff + bcap));
            self.classes.insert("release-discarded");
            return Ok(());
        }
        match added.len() {
            0 => {
                ensure!(
                    post.discarded as u64 == (pre.discarded as u64 + bcap as u64).min(u32::MAX as u64),
                    "C13|C20", "small-release-accounting",
                    "{what} of {bcap} bytes produced no segment: discarded() {} -> {} (expected +{bcap})", pre.discarded, post.discarded
                );
                self.dead.push((boff, boff + bcap));
                self.classes.insert("release-too-small");
            }
            1 => {
                let r = added[0];
                ensure!(
                    r.0 as usize >= boff && r.0 as usize + 8 + r.1 as usize <= boff + bcap,
                    "C13",
                    "release-extent",
                    "{what} of [{boff}, {}) created node {r:?} with extent [{}, {}) outside it",
                    boff + bcap,
                    r.0,
                    r.0 as usize + 8 + r.1 as usize
                );
                self.classes.insert("release-segment");
            }
            _ => {
                return Err(viol!(
                    "C13",
                    "release-many-nodes",
                    "{what} of [{boff}, {}) created several nodes {added:?}",
                    boff + bcap
                ))
            }
        }
        Ok(())
    }

    /// The allocator state as the FILE holds it right now (a shared mapping is the page cache), read through a
    /// throw-away read-only open. Used where no arena value is left to ask: the drop of the last holder.
    fn file_snap(&self) -> Option<Snap> {
        let path = self.path.as_ref()?;
        let off = self.cfg.off_pages as usize * self.page;
        let seen = self.unmounts.get();
        let o = self.opts.with_read(true).with_offset(off as u64);
        let a: A = unsafe { o.map::<A, _>(path) }.ok()?;
        let fl = a.fl();
        let s = Snap {
            allocated: a.allocated(),
            discarded: a.discarded(),
            remaining: a.remaining(),
            capacity: a.capacity(),
            minseg: a.minimum_segment_size(),
            refs: 0,
            fl: fl.nodes,
            fl_complete: fl.complete,
        };
        drop(a);
        // the throw-away arena's own release is not part of the case
        self.unmounts.set(seen);
        Some(s)
    }

    fn check_unmounts(&self, when: &str) -> R {
        if self.remove_on_drop {
            if let Some(p) = &self.path {
                let gone = !p.exists();
                let should_be_gone = self.expected_unmounts > self.rod_base;
                ensure!(gone == should_be_gone, "C13", "remove-on-drop-timing", "file marked remove-on-drop {} after {when} ({} release(s) of the backing memory expected so far)", if gone { "is gone" } else { "still exists" }, self.expected_unmounts);
            }
        }
        if self.mode.count_unmount {
            ensure!(
                self.unmounts.get() == self.expected_unmounts,
                "C13",
                "unmount-count",
                "backing memory released {} times, expected {} after {when}",
                self.unmounts.get(),
                self.expected_unmounts
            );
        }
        Ok(())
    }

    fn do_drop(&mut self, i: usize) -> R {
        let pre = self.snap();
        let mut h = self.hs.remove(i);
        let obj = h.obj.take().unwrap();
        let (boff, bcap, detached, embeds, drop_id) =
            (h.boff, h.bcap, h.detached, h.embeds, h.drop_id);
        let before = drop_id.map(drops_of).unwrap_or(0);
        if detached {
            // user's duty for a detached drop-type value
            let mut obj = obj;
            obj.drop_value();
            let before2 = drop_id.map(drops_of).unwrap_or(0);
            guard("drop(detached handle)", "C13", move || drop(obj))?;
            let post = self.snap();
            let mut e = pre.clone();
            e.refs = pre.refs - embeds;
            ensure!(
                post == e,
                "C13",
                "detached-drop-effect",
                "dropping a detached handle changed state {pre:?} -> {post:?}"
            );
            if let Some(id) = drop_id {
                ensure!(
                    drops_of(id) == before2,
                    "C13",
                    "detached-drop-dropped-value",
                    "detached handle dropped its value (drop count {} -> {})",
                    before2,
                    drops_of(id)
                );
            }
            // the range stays handed out (persistent)
            h.obj = None;
            self.hs.insert(i, h);
            self.classes.insert("drop-detached");
            return Ok(());
        }
        let zb = zst_drops();
        guard("drop(handle)", "C13", move || drop(obj))?;
        let post = self.snap();
        if let Some(dw) = h.zst_written {
            let total = dw + (zst_drops() - zb);
            ensure!(total == 1, "C13", "zst-value-drop-count", "a zero-sized drop value written into an owned handle was dropped {total} times by the time the handle was dropped");
            self.classes.insert("value-dropped-via-handle");
        }
        ensure!(
            post.refs + embeds == pre.refs,
            "C13",
            "refs-handle-drop",
            "refs() {} -> {} after dropping a handle embedding {embeds} arena value(s)",
            pre.refs,
            post.refs
        );
        if let Some(id) = drop_id {
            ensure!(
                drops_of(id) == before + 1,
                "C13",
                "value-drop-count",
                "value of a dropped non-detached handle was dropped {} times",
                drops_of(id) - before
            );
            self.classes.insert("value-dropped-via-handle");
        }
        if h.cap > 0 || h.bcap > 0 {
            self.check_release_effect(&pre, &post, boff, bcap, "drop")?;
        } else {
            let mut e = pre.clone();
            e.refs = post.refs;
            ensure!(
                post == e,
                "C13",
                "zero-size-drop-effect",
                "dropping a zero-sized handle changed state"
            );
        }
        if embeds > 0 && self.arenas[0].is_none() {
            self.classes.insert("owned-outlived-original");
        }
        Ok(())
    }

    fn do_dealloc_detached(&mut self, i: usize) -> R {
        let pre = self.snap();
        let mut h = self.hs.remove(i);
        if let Some(mut obj) = h.obj.take() {
            obj.drop_value();
            guard("drop(detached handle)", "C13", move || drop(obj))?;
            let mid = self.snap();
            let mut e = pre.clone();
            e.refs = pre.refs - h.embeds;
            ensure!(
                mid == e,
                "C13",
                "detached-drop-effect",
                "dropping a detached handle changed state {pre:?} -> {mid:?}"
            );
        }
        let pre = self.snap();
        let a = self.a();
        let (boff, bcap) = (h.boff, h.bcap);
        guard("dealloc", "C13", || unsafe {
            a.dealloc(boff as u32, bcap as u32)
        })?;
        let post = self.snap();
        self.check_release_effect(&pre, &post, boff, bcap, "dealloc")?;
        self.classes.insert("explicit-dealloc");
        Ok(())
    }

    fn do_discard(&mut self) -> R<String> {
        let pre = self.snap();
        let a = self.a();
        let r = guard("discard_freelist", "C20", || a.discard_freelist())?;
        let post = self.snap();
        if self.ro {
            ensure!(
                matches!(r, Err(Error::ReadOnly)),
                "C20",
                "discard-ro",
                "discard_freelist on a read-only arena returned {r:?}"
            );
            ensure!(
                pre == post,
                "C20",
                "discard-ro",
                "discard_freelist on a read-only arena changed state"
            );
            return Ok("readonly".into());
        }
        let sum: u64 = pre.fl.iter().map(|n| n.1 as u64).sum();
        if self.mode.lenient {
            return Ok(res_kind(&r).into());
        }
        match r {
            Ok(v) => {
                ensure!(
                    v as u64 == sum.min(u32::MAX as u64),
                    "C20",
                    "discard-return",
                    "discard_freelist() returned {v}, list held {sum} bytes: {:?}",
                    pre.fl
                );
                ensure!(
                    post.discarded as u64 == (pre.discarded as u64 + sum).min(u32::MAX as u64),
                    "C20",
                    "discard-accounting",
                    "discard_freelist(): discarded() {} -> {}, list held {sum}",
                    pre.discarded,
                    post.discarded
                );
                ensure!(
                    post.fl.is_empty(),
                    "C20",
                    "discard-left-nodes",
                    "discard_freelist() left nodes {:?}",
                    post.fl
                );
                ensure!(
                    post.allocated == pre.allocated
                        && post.capacity == pre.capacity
                        && post.minseg == pre.minseg,
                    "C20",
                    "discard-side-effect",
                    "discard_freelist() changed cursor/capacity/min segment size"
                );
                for n in &pre.fl {
                    self.dead
                        .push((n.0 as usize, n.0 as usize + 8 + n.1 as usize));
                }
                if !pre.fl.is_empty() {
                    self.classes.insert("discard-nonempty");
                }
                Ok("ok".into())
            }
            Err(e) => Err(viol!(
                "C20",
                "discard-failed",
                "discard_freelist() on a writable arena failed: {e:?}"
            )),
        }
    }

    /// Forget (without releasing) every handle whose extent ends above `target`.
    fn forget_above(&mut self, target: usize) -> R {
        let mut k = 0;
        while k < self.hs.len() {
            let h = &self.hs[k];
            let end = (h.off + h.cap).max(h.boff + h.bcap);
            if end > target && (h.cap > 0 || h.bcap > 0) {
                let mut h = self.hs.remove(k);
                if let Some(mut obj) = h.obj.take() {
                    obj.detach();
                    obj.drop_value();
                    guard("drop(detached handle)", "C13", move || drop(obj))?;
                }
            } else {
                k += 1;
            }
        }
        self.dead.retain(|d| d.1 <= target);
        Ok(())
    }

    pub fn ref_rewind_target(pos: ArenaPosition, allocated: usize, d: usize, cap: usize) -> usize {
        let t: i128 = match pos {
            ArenaPosition::Start(n) => n as i128,
            ArenaPosition::End(n) => cap as i128 - n as i128,
            ArenaPosition::Current(x) => allocated as i128 + x as i128,
        };
        t.clamp(d as i128, cap as i128) as usize
    }

    fn to_position(&self, pos: Pos, s: &Snap) -> ArenaPosition {
        let d = self.a().data_offset() as i64;
        let (al, cap) = (s.allocated as i64, s.capacity as i64);
        let u = |v: i64| v.clamp(0, u32::MAX as i64) as u32;
        match pos {
            Pos::Start(n) => ArenaPosition::Start(n),
            Pos::End(n) => ArenaPosition::End(n),
            Pos::Cur(x) => ArenaPosition::Current(x),
            Pos::StartData(x) => ArenaPosition::Start(u(d + x as i64)),
            Pos::StartAlloc(x) => ArenaPosition::Start(u(al + x as i64)),
            Pos::StartCap(x) => ArenaPosition::Start(u(cap + x as i64)),
            Pos::CurNegAlloc(x) => ArenaPosition::Current(-al + x as i64),
            Pos::CurToCap(x) => ArenaPosition::Current(cap - al + x as i64),
            Pos::EndToData(x) => ArenaPosition::End(u(cap - d + x as i64)),
        }
    }

    fn do_rewind(&mut self, pos: Pos, raw: bool) -> R {
        let s0 = self.snap();
        let ap = self.to_position(pos, &s0);
        let a = self.a();
        let d = a.data_offset();
        let target = Self::ref_rewind_target(ap, s0.allocated, d, s0.capacity);
        // the caller's obligations: nothing it still uses lies above the new cursor
        self.forget_above(target)?;
        // (not while crash points are being recorded: a crash inside the round trip would persist the state of the open
        // known finding - segments above the stored cursor - which the C06 histories must not contain)
        if !raw
            && !self.mode.crash
            && s0
                .fl
                .iter()
                .any(|n| n.0 as usize + 8 + n.1 as usize > target)
        {
            // "changes nothing else" with a non-empty free list above the target: before the list is discarded (which
            // the interpreter does so that nothing is ever allocated over a listed segment), rewind down and straight
            // back up - no allocation in between, so the stale state is never used - and require that each of the two
            // calls moved the cursor and nothing else, the free list in particular
            let pre = self.snap();
            guard("rewind", "C17", || unsafe { a.rewind(ap) })?;
            let mid = self.snap();
            let mut e = pre.clone();
            e.allocated = target;
            e.remaining = pre.capacity - target;
            ensure!(mid.allocated == target, "C17", "rewind-target", "rewind({ap:?}) with allocated={} data_offset={d} capacity={}: cursor {} expected {target}", pre.allocated, pre.capacity, mid.allocated);
            ensure!(mid == e, "C17", "rewind-side-effect", "rewind({ap:?}) over free-list segments changed more than the cursor: {pre:?} -> {mid:?}");
            guard("rewind", "C17", || unsafe {
                a.rewind(ArenaPosition::Start(pre.allocated as u32))
            })?;
            let back = self.snap();
            ensure!(
                back == pre,
                "C17",
                "rewind-side-effect",
                "rewind({ap:?}) and back to Start({}) is not the identity: {pre:?} -> {back:?}",
                pre.allocated
            );
            self.classes.insert("rewind-round-trip-over-segments");
        }
        if s0
            .fl
            .iter()
            .any(|n| n.0 as usize + 8 + n.1 as usize > target)
        {
            if raw {
                // the open known finding (DESIGN.md 11.2): whatever fails from here on in this history carries its signature
                self.classes.insert("rewind-left-segments-above-cursor");
                self.stale_list = true;
            } else {
                self.do_discard()?;
                self.dead.retain(|d| d.1 <= target);
            }
        }
        let pre = self.snap();
        guard("rewind", "C17", || unsafe { a.rewind(ap) })?;
        let post = self.snap();
        let mut e = pre.clone();
        e.allocated = target;
        e.remaining = pre.capacity - target;
        ensure!(
            post.allocated == target,
            "C17", "rewind-target",
            "rewind({ap:?}) with allocated={} data_offset={d} capacity={}: cursor {} expected {target}", pre.allocated, pre.capacity, post.allocated
        );
        ensure!(
            post == e,
            "C17",
            "rewind-side-effect",
            "rewind({ap:?}) changed more than the cursor: {pre:?} -> {post:?}"
        );
        if target < pre.allocated {
            self.classes.insert("rewind-down");
        } else if target > pre.allocated {
            self.classes.insert("rewind-up");
        }
        if target > self.high_water {
            self.high_water = target;
        }
        Ok(())
    }

    /// `rewind` has no error to return and its safety section does not exclude read-only arenas: on one it can only
    /// leave everything as it is (the cursor lives in a read-only mapping) - in particular it must not crash
    fn do_rewind_ro(&mut self, pos: Pos) -> R {
        let pre = self.snap();
        let ap = self.to_position(pos, &pre);
        let a = self.a();
        let before = crate::runner::fnv(self.mem());
        guard("rewind(read-only arena)", "C09|C17", || unsafe {
            a.rewind(ap)
        })?;
        let post = self.snap();
        ensure!(
            post == pre && crate::runner::fnv(self.mem()) == before,
            "C09|C17",
            "rewind-read-only-changed",
            "rewind({ap:?}) on a read-only arena changed it: {pre:?} -> {post:?}"
        );
        self.classes.insert("rewind-on-read-only");
        Ok(())
    }

    fn do_clear(&mut self) -> R {
        self.forget_above(0)?;
        // zero-sized handles that embed clones stay; everything else is gone
        let a = self.a();
        let pre = self.snap();
        let r = guard("clear", "C17", || unsafe { a.clear() })?;
        ensure!(
            r.is_ok(),
            "C17",
            "clear-failed",
            "clear() on a writable arena failed: {r:?}"
        );
        let post = self.snap();
        let d = a.data_offset();
        ensure!(
            post.allocated == d,
            "C17",
            "clear-cursor",
            "after clear allocated()={} data_offset={d}",
            post.allocated
        );
        ensure!(
            post.fl.is_empty(),
            "C17",
            "clear-freelist",
            "after clear the free list is {:?}",
            post.fl
        );
        ensure!(
            post.discarded == 0,
            "C17",
            "clear-discarded",
            "after clear discarded()={}",
            post.discarded
        );
        ensure!(
            post.minseg == pre.minseg && post.capacity == pre.capacity && post.refs == pre.refs,
            "C17",
            "clear-side-effect",
            "clear changed min segment size / capacity / refs: {pre:?} -> {post:?}"
        );
        let mem = self.mem();
        if let Some(p) = mem[d..].iter().position(|b| *b != 0) {
            return Err(viol!(
                "C17",
                "clear-not-zeroed",
                "after clear byte {} of the data area is {:#x}",
                d + p,
                mem[d + p]
            ));
        }
        self.dead.clear();
        self.high_water = d;
        self.inc_total = 0;
        self.last_discarded = 0;
        self.classes.insert("clear");
        Ok(())
    }

    /// Detach every live handle and drop the handle objects; the ranges stay handed out.
    pub fn detach_all(&mut self) -> R {
        for h in self.hs.iter_mut() {
            if let Some(mut obj) = h.obj.take() {
                obj.detach();
                obj.drop_value();
                h.detached = true;
                h.embeds = 0;
                guard("drop(detached handle)", "C13", move || drop(obj))?;
            }
        }
        // zero-sized tracked handles carry nothing
        self.hs.retain(|h| h.cap > 0 || h.bcap > 0);
        Ok(())
    }

    fn do_truncate(&mut self, n: Size) -> R<String> {
        if self.live_arena_ixs().len() != 1 {
            return Ok("skip".into());
        }
        self.detach_all()?;
        let pre = self.snap();
        if pre.refs != 1 {
            return Ok("skip".into());
        }
        let n: usize = match n {
            Size::Rem(d) => (pre.allocated as i64 + d as i64).max(0) as usize,
            Size::Cap(d) => (pre.capacity as i64 + d as i64).max(0) as usize,
            Size::Abs(v) => v as usize,
            // the upper end of the statement's domain, 4 * capacity - k (above u32::MAX for an arena of 1 GiB or more)
            Size::MaxMinus(k) => (4 * pre.capacity).saturating_sub(k as usize),
            // around 2^32
            Size::Half(d) => ((1i64 << 32) + d as i64) as usize,
            _ => pre.capacity,
        };
        let n = n.min(4 * pre.capacity.max(64));
        let before: Vec<u8> = self.mem()[..pre.allocated].to_vec();
        let ix = self.first();
        let arena: &mut A = self.arenas[ix].as_mut().unwrap();
        let r = guard("truncate", "C18", || arena.truncate_(n))?;
        let Some(r) = r else { return Ok("skip".into()) };
        let post = self.snap();
        if self.ro {
            ensure!(
                r.is_err(),
                "C18",
                "truncate-ro",
                "truncate on a read-only arena succeeded"
            );
            ensure!(
                pre == post,
                "C18",
                "truncate-ro",
                "truncate on a read-only arena changed state"
            );
            return Ok("readonly".into());
        }
        if n.max(pre.allocated) > u32::MAX as usize {
            // capacity() is a u32: max(n, allocated()) cannot be reported, so the statement cannot be met; what is
            // demanded instead is the least any caller needs - a refusal that leaves the arena exactly as it was
            self.classes.insert("truncate-beyond-u32");
            ensure!(r.is_err(), "C18", "truncate-wrapped", "truncate({n}) on an arena of capacity {} returned Ok: capacity() is now {} (allocated() {})", pre.capacity, post.capacity, post.allocated);
            ensure!(
                pre == post,
                "C18",
                "truncate-refused-effect",
                "truncate({n}) failed but changed state: {pre:?} -> {post:?}"
            );
            let after = &self.mem()[..post.allocated];
            ensure!(
                after == &before[..],
                "C18",
                "truncate-bytes",
                "truncate({n}) failed but changed bytes below allocated()"
            );
            return Ok("refused".into());
        }
        if r.is_err() && self.cow_nowrite {
            // the operating system refused to grow a file that was opened without write access: a failure the caller
            // can expect; what the arena owes them is that nothing changed (the laws that hold after every step - in
            // particular remaining() == capacity() - allocated() - are judged right after this step as usual)
            self.classes.insert("truncate-refused-by-the-os");
            ensure!(pre == post, "C18|C16", "truncate-refused-effect", "truncate({n}) failed ({r:?}) but changed state: {pre:?} -> {post:?}");
            let after = &self.mem()[..post.allocated];
            ensure!(after == &before[..], "C18", "truncate-bytes", "truncate({n}) failed but changed bytes below allocated()");
            return Ok("io-err".into());
        }
        ensure!(
            r.is_ok(),
            "C18",
            "truncate-failed",
            "truncate({n}) failed: {r:?}"
        );
        let want = n.max(pre.allocated);
        if post.capacity > want && post.allocated == pre.allocated {
            // the arena reports more memory than truncate left it with: a request that fits the report but not the
            // memory must still be answered safely (C04: "every arena state", "never reads or writes outside the
            // arena"). The harness makes that one request itself, only in this situation.
            let ask = (post.capacity - post.allocated) as u32;
            let a = self.a();
            let r = guard("alloc_bytes after truncate", "C04", || {
                a.alloc_bytes(ask).map(|mut h| {
                    let end = rarena_allocator::Buffer::offset(&h)
                        + rarena_allocator::Buffer::capacity(&h);
                    unsafe { rarena_allocator::Buffer::detach(&mut h) };
                    end
                })
            })?;
            if let Ok(end) = r {
                ensure!(end <= want, "C04|C18", "alloc-beyond-truncated-memory", "truncate({n}) with allocated {} left {want} bytes of memory, capacity() says {}; alloc_bytes({ask}) then returned a range ending at {end}, outside the arena", pre.allocated, post.capacity);
            }
        }
        ensure!(
            post.capacity == want,
            "C18",
            "truncate-capacity",
            "truncate({n}) with allocated {}: capacity() {} expected {want}",
            pre.allocated,
            post.capacity
        );
        let mut e = pre.clone();
        e.capacity = want;
        e.remaining = want - pre.allocated;
        // what the statement lists first: allocated(), discarded(), the free list, every byte below allocated()
        ensure!(
            post.allocated == pre.allocated && post.discarded == pre.discarded && post.fl == pre.fl,
            "C18",
            "truncate-side-effect",
            "truncate({n}) changed allocated() / discarded() / the free list: {pre:?} -> {post:?}"
        );
        let after = &self.mem()[..post.allocated];
        ensure!(
            after == &before[..],
            "C18",
            "truncate-bytes",
            "truncate({n}) changed bytes below allocated()"
        );
        // "... and nothing else" (the property's title): the rest of the observation tuple
        ensure!(
            post == e,
            "C18",
            "truncate-other-state",
            "truncate({n}) changed more than the capacity: {pre:?} -> {post:?}"
        );
        self.truncated = true;
        self.dirtied.resize(want.min(DIRTIED_MAX), false);
        if n < pre.capacity {
            self.classes.insert("truncate-shrink");
        } else if n > pre.capacity {
            self.classes.insert("truncate-grow");
        }
        if !pre.fl.is_empty() && !self.hs.is_empty() {
            self.classes.insert("truncate-with-freelist-and-live");
        }
        Ok("ok".into())
    }

    fn saved(&self) -> Saved {
        Saved {
            ranges: self
                .hs
                .iter()
                .map(|h| {
                    (
                        h.kind,
                        h.ty,
                        h.off,
                        h.cap,
                        h.boff,
                        h.bcap,
                        h.expect.clone(),
                        h.id,
                    )
                })
                .collect(),
            dead: self.dead.clone(),
            high_water: self.high_water,
            file: self
                .path
                .as_ref()
                .map(|p| std::fs::read(p).unwrap_or_default())
                .unwrap_or_default(),
            obs: self.snap(),
        }
    }

    /// Drop every arena value (handles must already be gone); the last drop closes the backing store.
    pub fn close_all(&mut self) -> R {
        let ixs = self.live_arena_ixs();
        for (k, ix) in ixs.iter().enumerate() {
            let b = self.arenas[*ix].take().unwrap();
            if k + 1 == ixs.len() {
                self.expected_unmounts += 1;
            }
            guard("Arena::drop", "C13", move || drop(b))?;
            self.check_unmounts("dropping arena values")?;
        }
        self.arenas.clear();
        Ok(())
    }

    fn do_reopen(&mut self, mode: u8, capsel: u8, create: bool, pb: bool, flags: u8) -> R {
        self.detach_all()?;
        let a = self.a();
        let closing = self.snap();
        let pre_d = a.data_offset();
        let pre_magic = a.magic_version();
        let pre_version = a.version();
        let pre_reserved = a.reserved_slice().to_vec();
        let was_cow = self.cow.take();
        self.close_all()?;
        let path = self.path.clone().unwrap();
        // what the file must hold now: the closing state, or - after a copy-on-write session - the
        // state saved when that session was opened
        let file_state: Snap = match was_cow {
            Some(sv) => {
                let now = std::fs::read(&path).unwrap_or_default();
                let n = sv.file.len().min(now.len());
                ensure!(
                    now.len() >= sv.file.len() && now[..n] == sv.file[..n],
                    "C05",
                    "cow-leaked",
                    "file contents changed during a map_copy session"
                );
                self.hs = sv
                    .ranges
                    .iter()
                    .map(|r| H {
                        obj: None,
                        kind: r.0,
                        ty: r.1,
                        off: r.2,
                        cap: r.3,
                        boff: r.4,
                        bcap: r.5,
                        expect: r.6.clone(),
                        embeds: 0,
                        via: 0,
                        detached: true,
                        drop_id: None,
                        zst_written: None,
                        id: r.7,
                    })
                    .collect();
                self.dead = sv.dead.clone();
                self.high_water = sv.high_water;
                self.classes.insert("reopen-after-cow");
                self.last_discarded = sv.obs.discarded;
                sv.obs
            }
            None => closing.clone(),
        };
        let file_len = std::fs::metadata(&path).map(|m| m.len()).unwrap_or(0) as usize;
        let off = self.cfg.off_pages as usize * self.page;
        // "same capacity" means the capacity of the arena the FILE holds: after a copy-on-write session (which may have
        // truncated its private mapping below the file's stored cursor) that is the capacity saved when the session
        // was opened, never the session's own
        let base_cap = file_state.capacity;
        let larger = base_cap + 1 + (self.opno * 37) % 300;
        let o = self.opts.with_read(true).with_offset(off as u64);
        // capsel 3 (only when the running check asks for it): a capacity below the cursor stored in the file but
        // large enough for the header - outside C05's domain; the open must be refused, or yield an arena whose cursor
        // lies inside its capacity (C15: allocated_memory() / the readers stay inside memory(); C16: remaining law)
        let below =
            capsel == 3 && self.mode.below_cursor_reopen && file_state.allocated > pre_d + 1;
        let below_cap = if below {
            pre_d + (self.opno * 13) % (file_state.allocated - pre_d)
        } else {
            0
        };
        let capsel = if capsel == 3 && !below { 0 } else { capsel };
        let o = match capsel {
            3 => o.with_capacity(below_cap as u32),
            c if c % 3 == 0 => o.with_capacity(base_cap as u32),
            c if c % 3 == 1 => o.with_capacity(larger as u32),
            _ => o,
        };
        let mode = mode & 3;
        let o = if create && mode < 2 {
            o.with_create(true)
        } else {
            o
        };
        if create && mode < 2 {
            self.classes.insert("reopen-with-create");
        }
        if pb {
            self.classes.insert("reopen-via-path-builder");
        }
        let o = if mode >= 2 { ro_flags(o, flags) } else { o };
        if mode >= 2 && flags & 31 != 0 {
            self.classes.insert("reopen-ro-with-write-flags");
        }
        let what = OPEN_NAMES[mode as usize + 4 * usize::from(pb)];
        let nowrite = mode == 1 && flags & 16 != 0 && !create && capsel % 3 != 1 && capsel != 3;
        self.cow_nowrite = false;
        let r = guard(what, "C05", || open_variant::<A>(o, if nowrite { mode | 4 } else { mode }, pb, &path))?;
        if nowrite && r.is_ok() {
            self.cow_nowrite = true;
            self.classes.insert("cow-session-without-write-access");
        }
        let before_below = if below {
            std::fs::read(&path).ok()
        } else {
            None
        };
        let mut accepted_below = false;
        let arena = match r {
            Ok(a) if below => {
                // accepted: then the arena must be consistent
                let (al, cp, am, dl) = (
                    a.allocated(),
                    a.capacity(),
                    a.allocated_memory().len(),
                    a.data().len(),
                );
                if al > cp || am > cp || dl > cp {
                    std::mem::forget(a);
                    return Err(viol!("C15|C16", "reopen-cursor-beyond-capacity", "{what} with capacity {below_cap} below the stored cursor {} was accepted: allocated()={al} capacity()={cp} allocated_memory().len()={am} data().len()={dl} (the slices reach past memory())", file_state.allocated));
                }
                accepted_below = true;
                a
            }
            Ok(a) => a,
            Err(_) if below => {
                // refused, as it should be: nothing in the file may have changed; carry on with a proper reopen
                self.classes.insert("reopen-below-cursor-refused");
                let now = std::fs::read(&path).unwrap_or_default();
                if let Some(b) = &before_below {
                    ensure!(now.len() >= b.len() && now[..b.len()] == b[..], "C09", "refused-open-altered-file", "{what} with capacity {below_cap} below the stored cursor was refused but changed the file");
                }
                let o2 = self
                    .opts
                    .with_read(true)
                    .with_offset(off as u64)
                    .with_capacity(base_cap as u32);
                let o2 = if mode >= 2 { ro_flags(o2, flags) } else { o2 };
                match guard(what, "C05", || open_variant::<A>(o2, mode, pb, &path))? {
                    Ok(a) => a,
                    Err(e) => return Err(viol!("C05", "reopen-failed", "{what} of a valid arena file (len {file_len}, mapping offset {off}) failed: {e}")),
                }
            }
            Err(e) => return Err(viol!(
                "C05",
                "reopen-failed",
                "{what} of a valid arena file (len {file_len}, mapping offset {off}) failed: {e}"
            )),
        };
        let capsel = if below { 0 } else { capsel };
        self.arenas = vec![Some(Box::new(arena))];
        self.ro = mode >= 2;
        let a = self.a();
        let post = self.snap();
        ensure!(
            post.allocated == file_state.allocated,
            "C05",
            "reopen-allocated",
            "{what}: allocated() {} before close, {} after reopen",
            file_state.allocated,
            post.allocated
        );
        ensure!(
            post.discarded == file_state.discarded,
            "C05",
            "reopen-discarded",
            "{what}: discarded() {} before close, {} after reopen",
            file_state.discarded,
            post.discarded
        );
        ensure!(
            post.minseg == file_state.minseg,
            "C05",
            "reopen-minseg",
            "{what}: minimum_segment_size() {} before close, {} after reopen",
            file_state.minseg,
            post.minseg
        );
        ensure!(
            post.fl == file_state.fl,
            "C05",
            "reopen-freelist",
            "{what}: free list {:?} before close, {:?} after reopen",
            file_state.fl,
            post.fl
        );
        let mem = self.mem();
        for (i, h) in self.hs.iter().enumerate() {
            if h.cap > 0 {
                ensure!(
                    h.off + h.cap <= mem.len() && mem[h.off..h.off + h.cap] == h.expect[..],
                    "C05",
                    "reopen-bytes",
                    "{what}: bytes of handed-out range #{i} [{}, {}) differ after reopen",
                    h.off,
                    h.off + h.cap
                );
            }
        }
        ensure!(
            a.data_offset() == pre_d,
            "C05",
            "reopen-data-offset",
            "{what}: data_offset() {} before close, {} after reopen",
            pre_d,
            a.data_offset()
        );
        ensure!(
            a.magic_version() == pre_magic && a.version() == pre_version,
            "C05",
            "reopen-magic",
            "{what}: magic/version changed across reopen"
        );
        ensure!(
            a.reserved_slice() == &pre_reserved[..],
            "C05",
            "reopen-reserved",
            "{what}: reserved prefix differs after reopen"
        );
        ensure!(
            a.read_only() == self.ro,
            "C05",
            "reopen-ro-flag",
            "{what}: read_only()={}",
            a.read_only()
        );
        let len_now = std::fs::metadata(&path).map(|m| m.len()).unwrap_or(0) as usize;
        let want_cap = match capsel % 3 {
            0 => base_cap,
            1 => larger,
            _ => file_len - off,
        };
        let want_cap = if self.ro {
            want_cap.min(file_len - off)
        } else {
            want_cap
        };
        ensure!(accepted_below || post.capacity == want_cap, "C05|C16", "reopen-capacity", "{what} capsel {capsel}: capacity() {} expected {want_cap} (file len {file_len} -> {len_now}, offset {off})", post.capacity);
        if self.dirtied.len() < post.capacity.min(DIRTIED_MAX) {
            self.dirtied.resize(post.capacity.min(DIRTIED_MAX), false);
        }
        if mode == 1 {
            let mut sv = self.saved();
            sv.obs = post.clone();
            self.cow = Some(sv);
        }
        self.classes.insert(
            [
                "reopen-map_mut",
                "reopen-map_copy",
                "reopen-map",
                "reopen-map_copy_ro",
            ][mode as usize],
        );
        // C13: "a file marked remove-on-drop disappears exactly then" - also when the mark is set on an arena that was
        // opened (writable, copy-on-write or read-only: the docs say the file goes even then) rather than created
        if self.mode.count_unmount && self.cfg.magic % 4 == 3 && !self.remove_on_drop {
            self.a().remove_on_drop(true);
            self.remove_on_drop = true;
            self.rod_base = self.expected_unmounts;
            self.classes.insert("remove-on-drop");
            self.classes.insert("remove-on-drop-set-after-reopen");
        }
        if !file_state.fl.is_empty()
            && self.hs.iter().any(|h| h.cap > 0)
            && file_state.discarded > 0
        {
            self.classes.insert("reopen-rich");
        }
        Ok(())
    }

    /// End of case: drop everything in a generated order and check teardown (C13).
    pub fn teardown(mut self) -> R<BTreeSet<&'static str>> {
        let order = self.cfg.teardown % 3;
        if order == 1 {
            // arena values without borrowers first (original first), then handles in reverse
            let ixs = self.live_arena_ixs();
            let total_holders = ixs.len()
                + self
                    .hs
                    .iter()
                    .filter(|h| h.obj.is_some() && h.embeds > 0)
                    .count();
            let mut holders = total_holders;
            for ix in ixs {
                let borrowed = self
                    .hs
                    .iter()
                    .any(|h| h.obj.is_some() && h.embeds == 0 && h.via == ix);
                if !borrowed && holders > 1 {
                    let b = self.arenas[ix].take().unwrap();
                    guard("Arena::drop", "C13", move || drop(b))?;
                    holders -= 1;
                    self.check_unmounts("dropping an arena value while others live")?;
                    if ix == 0 {
                        self.classes.insert("drop-original-first");
                    }
                }
            }
        }
        if order == 2 {
            for h in self.hs.iter_mut() {
                if let Some(o) = h.obj.as_mut() {
                    o.detach();
                    o.drop_value();
                }
            }
        }
        // handles (borrowed ones must go before their arena value)
        let mut objs: Vec<(HBox, usize, (usize, usize), bool)> = Vec::new();
        for h in self.hs.iter_mut() {
            if let Some(o) = h.obj.take() {
                objs.push((o, h.embeds, (h.boff, h.bcap), h.detached || order == 2));
            }
        }
        if order == 1 {
            objs.reverse();
        }
        let arenas_left = self.arenas.iter().filter(|a| a.is_some()).count();
        let n_owned = objs.iter().filter(|o| o.1 > 0).count();
        let mut holders = arenas_left + n_owned;
        for (o, embeds, (boff, bcap), det) in objs {
            // an owned handle that is the last holder of a file-backed arena: once it is gone there is no arena value
            // left to observe, but its release must still have happened - the file shows it (C13: "releases precisely
            // its own buffer extent, once", "an owned handle releases exactly what the borrowed handle would")
            let mut persisted: Option<Snap> = None;
            if embeds > 0 {
                if holders == 1 {
                    self.expected_unmounts += 1;
                    self.classes.insert("owned-handle-was-last");
                    if !det
                        && bcap > 0
                        && !self.ro
                        && self.cow.is_none()
                        && !self.remove_on_drop
                        && self.cfg.backend == Backend::File
                    {
                        persisted = self.file_snap();
                    }
                }
                holders -= 1;
                if self.arenas.first().map(|a| a.is_none()).unwrap_or(true) {
                    self.classes.insert("owned-outlived-original");
                }
            }
            guard("drop(handle)", "C13", move || drop(o))?;
            self.check_unmounts("dropping a handle at teardown")?;
            if let Some(pre) = persisted {
                if let Some(post) = self.file_snap() {
                    self.classes.insert("last-holder-release-checked-in-file");
                    self.check_release_effect(
                        &pre,
                        &post,
                        boff,
                        bcap,
                        "drop of the last holder (an owned handle), as persisted in the file",
                    )?;
                }
            }
        }
        let ixs = self.live_arena_ixs();
        let ixs: Vec<usize> = if order == 2 {
            ixs.into_iter().rev().collect()
        } else {
            ixs
        };
        for ix in ixs {
            let b = self.arenas[ix].take().unwrap();
            if holders == 1 {
                self.expected_unmounts += 1;
            }
            holders -= 1;
            guard("Arena::drop", "C13", move || drop(b))?;
            self.check_unmounts("dropping an arena value at teardown")?;
        }
        if self.mode.count_unmount || self.crash.is_some() {
            verif::set_hook(None);
        }
        if let Some(p) = &self.path {
            let _ = std::fs::remove_file(p);
        }
        Ok(std::mem::take(&mut self.classes))
    }

    /// Abandon the case without running any arena code again.
    pub fn leak(self) {
        if self.mode.count_unmount || self.crash.is_some() {
            verif::set_hook(None);
        }
        if let Some(p) = &self.path {
            let _ = std::fs::remove_file(p);
        }
        std::mem::forget(self);
    }
}

pub struct RunOut {
    pub classes: BTreeSet<&'static str>,
    pub trace: Vec<Obs>,
    pub mem: Vec<u8>,
    /// failure of the owning property, or a failure the interpreter could not go past
    pub viol: Option<Viol>,
    /// first predicate failure of another property that was noted and passed over
    pub foreign: Option<Viol>,
}

/// Runs a whole history on flavour `A`.
pub fn run_history<A: Flavor>(cfg: &Cfg, ops: &[Op], mode: Mode) -> RunOut {
    crate::types::reset_drops();
    let mut mode = mode;
    if A::SYNC && mode.budget.is_none() {
        // a single thread that makes this many consecutive atomic accesses without changing anything is
        // in a loop it can never leave: turn the hang into a reported failure
        mode.budget = Some(50_000);
    }
    let want_mem = mode.trace;
    let mut w = match World::<A>::new(cfg, mode) {
        Ok(Some(w)) => w,
        Ok(None) => {
            return RunOut {
                classes: BTreeSet::new(),
                trace: vec![],
                mem: vec![],
                viol: None,
                foreign: None,
            }
        }
        Err(v) => {
            verif::set_hook(None);
            return RunOut {
                classes: BTreeSet::new(),
                trace: vec![],
                mem: vec![],
                viol: Some(v),
                foreign: take_foreign(),
            };
        }
    };
    let s0 = w.snap();
    if let Err(v) = w.check_invariants(&s0) {
        let (classes, trace) = (w.classes.clone(), std::mem::take(&mut w.trace));
        w.leak();
        return RunOut {
            classes,
            trace,
            mem: vec![],
            viol: Some(v),
            foreign: take_foreign(),
        };
    }
    for (i, op) in ops.iter().enumerate() {
        if let Err(v) = w.step(i, op) {
            let mut v = v;
            if OWNER.with(|o| o.get()) == Some("C16")
                && !owns(v.prop, "C16")
                && v.sig != "infra"
                && !v.sig.starts_with("budget")
            {
                if let Err(v2) = w.reserved_epilogue() {
                    v = Viol {
                        prop: v2.prop,
                        sig: v2.sig.clone(),
                        msg: format!("{} [after {}:{} {}]", v2.msg, v.prop, v.sig, v.msg),
                    };
                }
            }
            let (classes, trace) = (w.classes.clone(), std::mem::take(&mut w.trace));
            w.leak();
            return RunOut {
                classes,
                trace,
                mem: vec![],
                viol: Some(v),
                foreign: take_foreign(),
            };
        }
    }
    let trace = std::mem::take(&mut w.trace);
    let mem = if want_mem { w.mem_comparable() } else { vec![] };
    let classes_before = w.classes.clone();
    match w.teardown() {
        Ok(classes) => RunOut {
            classes,
            trace,
            mem,
            viol: None,
            foreign: take_foreign(),
        },
        Err(v) => {
            verif::set_hook(None);
            RunOut {
                classes: classes_before,
                trace,
                mem,
                viol: Some(v),
                foreign: take_foreign(),
            }
        }
    }
}

pub fn run_case(case: &CaseA, mode: Mode) -> RunOut {
    match case.cfg.flavor {
        Fl::Sync => run_history::<rarena_allocator::sync::Arena>(&case.cfg, &case.ops, mode),
        Fl::Unsync => run_history::<rarena_allocator::unsync::Arena>(&case.cfg, &case.ops, mode),
    }
}
