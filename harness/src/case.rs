//! Generated values of Engine A: arena configuration, operations, and their proptest strategies.

use crate::types::ntypes;
use proptest::prelude::*;
use proptest::strategy::Union;
use serde::{Deserialize, Serialize};

#[derive(Clone, Copy, Debug, PartialEq, Eq, Serialize, Deserialize)]
pub enum Fl {
    Sync,
    Unsync,
}

#[derive(Clone, Copy, Debug, PartialEq, Eq, Serialize, Deserialize)]
pub enum Backend {
    Vec,
    Anon,
    File,
}

#[derive(Clone, Debug, PartialEq, Eq, Serialize, Deserialize)]
pub struct Cfg {
    pub flavor: Fl,
    /// 0 None, 1 Optimistic, 2 Pessimistic
    pub freelist: u8,
    pub backend: Backend,
    pub unify: bool,
    pub reserved: u32,
    /// capacity = prefix + cap_extra
    pub cap_extra: u32,
    pub min_seg: u32,
    pub max_align: u8,
    pub magic: u16,
    pub retries: u8,
    /// file only: mapping offset in pages
    pub off_pages: u8,
    /// file only: create_new(true) instead of create(true)
    pub create_new: bool,
    /// order in which everything is dropped at the end of the case
    pub teardown: u8,
    /// file only: construct through `map_mut_with_path_builder` instead of `map_mut`
    #[serde(default)]
    pub pb: bool,
}

#[derive(Clone, Copy, Debug, PartialEq, Eq, Serialize, Deserialize)]
pub enum Size {
    Abs(u32),
    /// remaining() + d
    Rem(i8),
    /// size field of a free-list node (0 first, 1 last, 2 middle) + d
    Seg(u8, i8),
    /// u32::MAX - k
    MaxMinus(u8),
    /// u32::MAX - allocated() + d
    WrapAt(i8),
    /// 2^31 + d
    Half(i8),
    /// capacity() + d
    Cap(i8),
}

#[derive(Clone, Copy, Debug, PartialEq, Eq, Serialize, Deserialize)]
pub enum Pos {
    Start(u32),
    End(u32),
    Cur(i64),
    /// Start(data_offset + d)
    StartData(i8),
    /// Start(allocated + d)
    StartAlloc(i8),
    /// Start(cap + d)
    StartCap(i8),
    /// Current(-allocated + d)
    CurNegAlloc(i8),
    /// Current(cap - allocated + d)
    CurToCap(i8),
    /// End(cap - data_offset + d)
    EndToData(i8),
}

#[derive(Clone, Debug, PartialEq, Eq, Serialize, Deserialize)]
pub enum Op {
    AllocBytes {
        n: Size,
        owned: bool,
        via: u16,
    },
    AllocAligned {
        ty: u8,
        n: Size,
        owned: bool,
        via: u16,
    },
    AllocTyped {
        ty: u8,
        owned: bool,
        via: u16,
    },
    /// alloc_bytes(remaining() - slack), kept as a live handle
    Fill {
        slack: u8,
    },
    Write {
        h: u16,
    },
    Drop {
        h: u16,
    },
    Detach {
        h: u16,
    },
    DeallocDetached {
        h: u16,
    },
    CloneArena,
    DropArena {
        a: u16,
    },
    DiscardFreelist,
    SetMinSeg {
        v: u32,
    },
    IncDiscarded {
        v: u32,
    },
    Rewind {
        pos: Pos,
        /// never generated; only in the committed histories of the open known finding (DESIGN.md 11.2): do NOT discard a
        /// free list that reaches above the new cursor before rewinding
        #[serde(default)]
        raw: bool,
    },
    Clear,
    Truncate {
        n: Size,
    },
    Flush,
    /// mode: 0 map_mut, 1 map_copy, 2 map, 3 map_copy_read_only; cap: 0 same, 1 larger, 2 absent, 3 below the stored
    /// cursor (only honoured when the running check asks for it, otherwise the same as 0)
    Reopen {
        mode: u8,
        cap: u8,
        /// also pass with_create(true) to a writable reopen of the existing file
        #[serde(default)]
        create: bool,
        /// open through the `*_with_path_builder` variant
        #[serde(default)]
        pb: bool,
        /// read-only modes only: file-open flags the caller left set on the `Options` (bit 0 truncate, 1 append,
        /// 2 create, 3 create_new, 4 write); a read-only open must neutralise all of them
        #[serde(default)]
        flags: u8,
    },
}

/// Per-property generator profile.
#[derive(Clone, Debug)]
pub struct Profile {
    pub max_ops: usize,
    pub flavors: &'static [Fl],
    pub backends: &'static [(u32, Backend)],
    pub freelists: &'static [(u32, u8)],
    /// (weight, lo, hi) classes of cap_extra
    pub caps: &'static [(u32, u32, u32)],
    pub reserved_max: u32,
    // op weights
    pub w_bytes: u32,
    pub w_aligned: u32,
    pub w_typed: u32,
    pub w_fill: u32,
    pub w_write: u32,
    pub w_drop: u32,
    pub w_detach: u32,
    pub w_dealloc: u32,
    pub w_clone: u32,
    pub w_droparena: u32,
    pub w_discard: u32,
    pub w_minseg: u32,
    pub w_incdisc: u32,
    pub w_rewind: u32,
    pub w_clear: u32,
    pub w_truncate: u32,
    pub w_flush: u32,
    pub w_reopen: u32,
    pub owned_pct: u32,
    pub huge: bool,
    pub zero_pct: u32,
    pub reopen_modes: &'static [(u32, u8)],
    /// percentage of cases that start with a fragmentation prelude (blocks, fill, free a subset)
    pub prelude_pct: u32,
    /// percentage of typed allocations that use a drop-counting type
    pub drop_ty_pct: u32,
    /// increase_discarded with values over the whole u32 range (C20: the counter saturates, it never wraps)
    pub big_incdisc: bool,
}

pub const BOTH: &[Fl] = &[Fl::Sync, Fl::Unsync];
pub const ALL_BACKENDS: &[(u32, Backend)] =
    &[(6, Backend::Vec), (2, Backend::Anon), (2, Backend::File)];
pub const MEM_BACKENDS: &[(u32, Backend)] = &[(7, Backend::Vec), (3, Backend::Anon)];
pub const FILE_ONLY: &[(u32, Backend)] = &[(1, Backend::File)];
pub const ALL_FL: &[(u32, u8)] = &[(2, 0), (4, 1), (4, 2)];
pub const LIST_FL: &[(u32, u8)] = &[(1, 1), (1, 2)];
pub const CAPS: &[(u32, u32, u32)] = &[(2, 0, 16), (6, 24, 512), (2, 513, 4096)];
/// CAPS plus a rare class of large arenas (buffers of many pages)
pub const BIG_CAPS: &[(u32, u32, u32)] = &[
    (3, 0, 16),
    (9, 24, 512),
    (3, 513, 4096),
    (1, 70_000, 300_000),
];
pub const SMALL_CAPS: &[(u32, u32, u32)] = &[(1, 0, 16), (8, 24, 400), (1, 401, 1200)];

impl Profile {
    pub fn base() -> Profile {
        Profile {
            max_ops: 40,
            flavors: BOTH,
            backends: ALL_BACKENDS,
            freelists: ALL_FL,
            caps: CAPS,
            reserved_max: 128,
            w_bytes: 45,
            w_aligned: 15,
            w_typed: 25,
            w_fill: 6,
            w_write: 10,
            w_drop: 25,
            w_detach: 4,
            w_dealloc: 4,
            w_clone: 2,
            w_droparena: 2,
            w_discard: 0,
            w_minseg: 0,
            w_incdisc: 0,
            w_rewind: 0,
            w_clear: 0,
            w_truncate: 0,
            w_flush: 0,
            w_reopen: 0,
            owned_pct: 30,
            huge: false,
            zero_pct: 4,
            reopen_modes: &[(1, 0)],
            prelude_pct: 40,
            drop_ty_pct: 10,
            big_incdisc: false,
        }
    }
}

fn weighted<T: Clone + std::fmt::Debug + 'static>(xs: &[(u32, T)]) -> BoxedStrategy<T> {
    Union::new_weighted(
        xs.iter()
            .filter(|(w, _)| *w > 0)
            .map(|(w, x)| (*w, Just(x.clone()).boxed()))
            .collect::<Vec<_>>(),
    )
    .boxed()
}

pub fn cfg_strategy(p: &Profile) -> BoxedStrategy<Cfg> {
    let flavors: Vec<(u32, Fl)> = p.flavors.iter().map(|f| (1, *f)).collect();
    let caps = Union::new_weighted(
        p.caps
            .iter()
            .map(|(w, lo, hi)| (*w, (*lo..=*hi).boxed()))
            .collect::<Vec<_>>(),
    );
    let reserved = prop_oneof![
        4 => Just(0u32),
        3 => prop::sample::select(vec![1u32, 5, 7, 8, 9, 16, 33]),
        2 => 0u32..=p.reserved_max,
    ];
    let min_seg = prop_oneof![
        3 => Just(20u32),
        3 => prop::sample::select(vec![0u32, 1, 8, 48, 64]),
        1 => 0u32..=128,
    ];
    (
        (
            weighted(&flavors),
            weighted(p.freelists),
            weighted(p.backends),
            any::<bool>(),
            reserved,
            caps,
        ),
        (
            min_seg,
            prop::sample::select(vec![1u8, 2, 4, 8, 16]),
            prop_oneof![3 => Just(0u16), 1 => any::<u16>()],
            1u8..=5,
            prop_oneof![4 => Just(0u8), 1 => 1u8..=2],
            any::<bool>(),
            0u8..3,
            (0u8..4).prop_map(|x| x == 0),
        ),
    )
        .prop_map(
            |(
                (flavor, freelist, backend, unify, reserved, cap_extra),
                (min_seg, max_align, magic, retries, off_pages, create_new, teardown, pb),
            )| Cfg {
                flavor,
                freelist,
                backend,
                unify,
                reserved,
                cap_extra,
                min_seg,
                max_align,
                magic,
                retries,
                off_pages,
                create_new,
                teardown,
                pb,
            },
        )
        .boxed()
}

pub fn size_strategy(p: &Profile) -> BoxedStrategy<Size> {
    let mut v: Vec<(u32, BoxedStrategy<Size>)> = vec![
        (p.zero_pct.max(1), Just(Size::Abs(0)).boxed()),
        (30, (1u32..=40).prop_map(Size::Abs).boxed()),
        (12, (41u32..=300).prop_map(Size::Abs).boxed()),
        (3, (301u32..=5000).prop_map(Size::Abs).boxed()),
        (6, (0u32..=12).prop_map(|k| Size::Abs(1 << k)).boxed()),
        (10, (-9i8..=9).prop_map(Size::Rem).boxed()),
        (
            16,
            ((0u8..3), (-9i8..=9))
                .prop_map(|(w, d)| Size::Seg(w, d))
                .boxed(),
        ),
    ];
    if p.huge {
        v.push((8, (0u8..64).prop_map(Size::MaxMinus).boxed()));
        v.push((8, (-40i8..=40).prop_map(Size::WrapAt).boxed()));
        v.push((5, (-2i8..=2).prop_map(Size::Half).boxed()));
        v.push((6, (-20i8..=20).prop_map(Size::Cap).boxed()));
        v.push((3, any::<u32>().prop_map(Size::Abs).boxed()));
    }
    Union::new_weighted(v).boxed()
}

pub fn pos_strategy() -> BoxedStrategy<Pos> {
    prop_oneof![
        2 => prop_oneof![Just(0u32), Just(1), Just(u32::MAX), Just(u32::MAX - 1), any::<u32>(), 0u32..6000].prop_map(Pos::Start),
        2 => prop_oneof![Just(0u32), Just(1), Just(u32::MAX), any::<u32>(), 0u32..6000].prop_map(Pos::End),
        3 => prop_oneof![Just(0i64), Just(1), Just(-1), Just(i64::MAX), Just(i64::MIN), Just(i64::MAX - 1), Just(i64::MIN + 1),
               Just(u32::MAX as i64), Just(-(u32::MAX as i64)), Just(1i64 << 32), Just(-(1i64 << 32)), any::<i64>(), -6000i64..6000].prop_map(Pos::Cur),
        2 => (-3i8..=3).prop_map(Pos::StartData),
        2 => (-3i8..=3).prop_map(Pos::StartAlloc),
        2 => (-3i8..=3).prop_map(Pos::StartCap),
        3 => (-3i8..=3).prop_map(Pos::CurNegAlloc),
        2 => (-3i8..=3).prop_map(Pos::CurToCap),
        2 => (-3i8..=3).prop_map(Pos::EndToData),
    ]
    .boxed()
}

pub fn op_strategy(p: &Profile) -> BoxedStrategy<Op> {
    let nt = ntypes() as u8;
    let owned = {
        let pct = p.owned_pct;
        (0u32..100).prop_map(move |x| x < pct)
    };
    let size = size_strategy(p);
    let mut v: Vec<(u32, BoxedStrategy<Op>)> = Vec::new();
    let mut add = |w: u32, s: BoxedStrategy<Op>| {
        if w > 0 {
            v.push((w, s));
        }
    };
    add(
        p.w_bytes,
        (size.clone(), owned.clone(), any::<u16>())
            .prop_map(|(n, owned, via)| Op::AllocBytes { n, owned, via })
            .boxed(),
    );
    add(
        p.w_aligned,
        (0..nt, size.clone(), owned.clone(), any::<u16>())
            .prop_map(|(ty, n, owned, via)| Op::AllocAligned { ty, n, owned, via })
            .boxed(),
    );
    let drop_tys: Vec<u8> = crate::types::TYPES
        .iter()
        .enumerate()
        .filter(|(_, t)| t.needs_drop)
        .map(|(i, _)| i as u8)
        .collect();
    let dpct = p.drop_ty_pct;
    let ty_strat = prop_oneof![
        dpct => prop::sample::select(drop_tys),
        (100 - dpct) => 0..nt,
    ];
    add(
        p.w_typed,
        (ty_strat, owned.clone(), any::<u16>())
            .prop_map(|(ty, owned, via)| Op::AllocTyped { ty, owned, via })
            .boxed(),
    );
    add(
        p.w_fill,
        (0u8..24).prop_map(|slack| Op::Fill { slack }).boxed(),
    );
    add(
        p.w_write,
        any::<u16>().prop_map(|h| Op::Write { h }).boxed(),
    );
    add(p.w_drop, any::<u16>().prop_map(|h| Op::Drop { h }).boxed());
    add(
        p.w_detach,
        any::<u16>().prop_map(|h| Op::Detach { h }).boxed(),
    );
    add(
        p.w_dealloc,
        any::<u16>().prop_map(|h| Op::DeallocDetached { h }).boxed(),
    );
    add(p.w_clone, Just(Op::CloneArena).boxed());
    add(
        p.w_droparena,
        any::<u16>().prop_map(|a| Op::DropArena { a }).boxed(),
    );
    add(p.w_discard, Just(Op::DiscardFreelist).boxed());
    add(
        p.w_minseg,
        prop_oneof![
            prop::sample::select(vec![0u32, 1, 7, 8, 9, 20, 48, 64]),
            0u32..200
        ]
        .prop_map(|v| Op::SetMinSeg { v })
        .boxed(),
    );
    if p.big_incdisc {
        add(
            p.w_incdisc,
            prop_oneof![
                6 => 0u32..5000,
                1 => (0u32..300).prop_map(|k| u32::MAX - k),
                1 => (0u32..300).prop_map(|k| (1u32 << 31) - 150 + k),
                1 => any::<u32>(),
            ]
            .prop_map(|v| Op::IncDiscarded { v })
            .boxed(),
        );
    } else {
        add(
            p.w_incdisc,
            (0u32..5000).prop_map(|v| Op::IncDiscarded { v }).boxed(),
        );
    }
    add(
        p.w_rewind,
        pos_strategy()
            .prop_map(|pos| Op::Rewind { pos, raw: false })
            .boxed(),
    );
    add(p.w_clear, Just(Op::Clear).boxed());
    add(
        p.w_truncate,
        prop_oneof![
            3 => (-20i8..=20).prop_map(Size::Cap),
            3 => (-20i8..=20).prop_map(|d| Size::Rem(d)), // interpreted relative to allocated() by Truncate
            2 => (0u32..20000).prop_map(Size::Abs),
        ]
        .prop_map(|n| Op::Truncate { n })
        .boxed(),
    );
    add(p.w_flush, Just(Op::Flush).boxed());
    add(
        p.w_reopen,
        (
            weighted(p.reopen_modes),
            prop_oneof![9 => 0u8..3, 1 => Just(3u8)],
            any::<bool>(),
            (0u8..3).prop_map(|x| x == 0),
            prop_oneof![2 => Just(0u8), 1 => 0u8..32],
        )
            .prop_map(|(mode, cap, create, pb, flags)| Op::Reopen {
                mode,
                cap,
                create,
                pb,
                flags,
            })
            .boxed(),
    );
    Union::new_weighted(v).boxed()
}

#[derive(Clone, Debug, PartialEq, Eq, Serialize, Deserialize)]
pub struct CaseA {
    pub cfg: Cfg,
    pub ops: Vec<Op>,
}

/// A fragmentation prelude made of plain ops (so it shrinks like any other op list): allocate
/// `n` byte blocks with tied sizes, fill the rest of the arena, then drop a subset of the blocks.
pub fn prelude_strategy() -> BoxedStrategy<Vec<Op>> {
    let sizes = prop::sample::select(vec![24u32, 32, 32, 40, 48, 48, 64, 72, 100, 17, 9]);
    (
        prop::collection::vec((sizes, any::<bool>()), 2..=9),
        any::<bool>(),
        0u8..3,
    )
        .prop_map(|(blocks, owned_some, slack)| {
            let n = blocks.len();
            let mut ops = Vec::new();
            for (k, (sz, _)) in blocks.iter().enumerate() {
                ops.push(Op::AllocBytes {
                    n: Size::Abs(*sz),
                    owned: owned_some && k % 3 == 0,
                    via: 0,
                });
            }
            ops.push(Op::Fill { slack });
            let total = n + 1;
            // drop selected blocks from the highest index down so earlier indices stay valid
            let mut len = total;
            for k in (0..n).rev() {
                if blocks[k].1 {
                    let h = ((k * 65536 + len - 1) / len).min(65535) as u16;
                    ops.push(Op::Drop { h });
                    len -= 1;
                }
            }
            ops
        })
        .boxed()
}

pub fn case_strategy(p: &Profile) -> BoxedStrategy<CaseA> {
    let pct = p.prelude_pct;
    let prelude = prop_oneof![
        (100 - pct.min(99)) => Just(Vec::<Op>::new()),
        pct.max(1) => prelude_strategy(),
    ];
    (
        cfg_strategy(p),
        prelude,
        prop::collection::vec(op_strategy(p), 0..=p.max_ops),
    )
        .prop_map(|(cfg, mut pre, ops)| {
            pre.extend(ops);
            CaseA { cfg, ops: pre }
        })
        .boxed()
}

/// monotone mapping of a generated index onto `0..len`
pub fn pick(i: u16, len: usize) -> usize {
    ((i as usize) * len) >> 16
}
