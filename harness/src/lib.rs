//! `rv`: property-based verification harness for al8n/rarena (see /verif/DESIGN.md).
pub mod case;
pub mod enga;
pub mod engb;
pub mod flavor;
pub mod fuzzdec;
pub mod props;
pub mod runner;
pub mod types;
