//! Engine B: controlled scheduler over the real `sync::Arena`.
//!
//! Real OS threads run the real lock-free code, but only the thread holding the baton runs; the
//! baton may move at every atomic access the crate makes (verif hook), following a generated,
//! shrinkable schedule. The hook's event stream also feeds: the shadow map of live ranges (C02), the
//! no-progress detector (C07), a vector-clock race detector (C12) and the release counter (C13).

use crate::case::{pick, Cfg, Op};
use crate::enga::{viol, Mode, Viol, World};
use crate::flavor::{alloc_aligned, alloc_bytes, alloc_typed, HBox};
use crate::types::{pat, TYPES};
use rarena_allocator::verif::{self, Action, Event, Kind};
use rarena_allocator::{sync::Arena, Allocator};
use serde::{Deserialize, Serialize};
use std::collections::{BTreeSet, HashMap};
use std::panic::{catch_unwind, resume_unwind, AssertUnwindSafe};
use std::sync::atomic::Ordering;
use std::sync::{Arc, Condvar, Mutex, MutexGuard};
use std::time::Duration;

#[derive(Clone, Debug, Serialize, Deserialize)]
pub enum POp {
    AllocBytes {
        n: u16,
        payload: u8,
    },
    /// alloc_bytes(largest free segment * num / 8 + d), resolved when the operation starts
    AllocRel {
        num: u8,
        d: i8,
        payload: u8,
    },
    /// alloc_bytes(size field of the free-list node at list position `ix` (monotone map onto the list) + d), resolved
    /// when the operation starts: with d <= 0 a Pessimistic arena serves it from that node or an earlier one of the same
    /// size, so several threads can be made to work on different nodes of one list at the same time
    AllocSeg {
        ix: u8,
        d: i8,
        payload: u8,
    },
    AllocAligned {
        ty: u8,
        n: u16,
        payload: u8,
    },
    AllocTyped {
        ty: u8,
        payload: u8,
    },
    AllocOwned {
        n: u16,
    },
    /// alloc_bytes of a size that cannot fit: sel 0 = u32::MAX - |d|, 1 = u32::MAX - allocated() + d (the sum passes 2^32
    /// for d > 0), 2 = capacity() + d, 3 = remaining() + 1 + |d|; resolved when the operation starts
    AllocHuge {
        sel: u8,
        d: i8,
    },
    Drop {
        h: u16,
    },
    Discard,
    CloneArena,
    DropClone,
    /// give handle `h` (an owned buffer) to thread `to`
    Send {
        h: u16,
        to: u8,
    },
    /// take whatever the mailbox holds for this thread
    Recv,
}

#[derive(Clone, Debug, Serialize, Deserialize)]
pub struct CaseB {
    pub cfg: Cfg,
    pub pre: Vec<Op>,
    pub progs: Vec<Vec<POp>>,
    pub schedule: Vec<u8>,
    /// after a successful mark CAS (size field -> 0), keep the marking thread descheduled for this many points
    pub mark_preempt: u8,
    /// inject spurious failures into compare_exchange_weak (at most two per operation)
    pub spurious: bool,
    /// every marking thread gets its own pre-emption counter (several threads can sit between their mark and their
    /// unlink at the same time); off = only the latest marker is held back
    #[serde(default)]
    pub park_all: bool,
}

const MAIN: usize = usize::MAX;

struct Abort;

pub struct LiveB {
    pub id: u32,
    pub tid: usize,
    pub off: usize,
    pub cap: usize,
    pub expect: Vec<u8>,
}

#[derive(Clone, Copy, Default)]
struct WriteRec {
    tid: u32,
    clock: u32,
    atomic: bool,
    valid: bool,
}

struct Race {
    vc: Vec<Vec<u32>>,
    rel: HashMap<usize, Vec<u32>>,
    last_write: Vec<WriteRec>,
    /// per byte, per thread: clock of the last non-atomic / atomic read
    reads_na: Vec<Vec<u32>>,
    reads_at: Vec<Vec<u32>>,
    enabled: bool,
}

fn join(a: &mut [u32], b: &[u32]) {
    for (x, y) in a.iter_mut().zip(b.iter()) {
        if *y > *x {
            *x = *y;
        }
    }
}

impl Race {
    fn new(n: usize, cap: usize, enabled: bool) -> Race {
        let nn = n + 1;
        let mut vc = vec![vec![0u32; nn]; nn];
        for (i, v) in vc.iter_mut().enumerate() {
            v[i] = 1;
        }
        Race {
            vc,
            rel: HashMap::new(),
            last_write: vec![WriteRec::default(); if enabled { cap } else { 0 }],
            reads_na: vec![vec![0; if enabled { cap } else { 0 }]; nn],
            reads_at: vec![vec![0; if enabled { cap } else { 0 }]; nn],
            enabled,
        }
    }
    fn ix(&self, t: usize) -> usize {
        if t == MAIN {
            self.vc.len() - 1
        } else {
            t
        }
    }
    fn tick(&mut self, t: usize) {
        let i = self.ix(t);
        self.vc[i][i] += 1;
    }
    /// returns a description of a race, if the write by `t` to bytes [lo, hi) races with an earlier access
    fn on_write(
        &mut self,
        t: usize,
        lo: usize,
        hi: usize,
        atomic: bool,
        what: &str,
    ) -> Option<String> {
        if !self.enabled {
            return None;
        }
        let ti = self.ix(t);
        let hi = hi.min(self.last_write.len());
        for b in lo..hi {
            let w = self.last_write[b];
            if w.valid
                && w.tid as usize != ti
                && w.clock > self.vc[ti][w.tid as usize]
                && !(atomic && w.atomic)
            {
                return Some(format!("{what} by thread {ti} at byte {b} is unordered with an earlier {} write by thread {}", if w.atomic { "atomic" } else { "plain" }, w.tid));
            }
            for r in 0..self.vc.len() {
                if r == ti {
                    continue;
                }
                if self.reads_na[r][b] > self.vc[ti][r] {
                    return Some(format!("{what} by thread {ti} at byte {b} is unordered with an earlier plain read by thread {r}"));
                }
                if !atomic && self.reads_at[r][b] > self.vc[ti][r] {
                    return Some(format!("{what} by thread {ti} at byte {b} is unordered with an earlier atomic read by thread {r}"));
                }
            }
        }
        let clock = self.vc[ti][ti];
        for b in lo..hi {
            self.last_write[b] = WriteRec {
                tid: ti as u32,
                clock,
                atomic,
                valid: true,
            };
            for r in 0..self.vc.len() {
                self.reads_na[r][b] = 0;
                self.reads_at[r][b] = 0;
            }
        }
        None
    }
    fn on_read(
        &mut self,
        t: usize,
        lo: usize,
        hi: usize,
        atomic: bool,
        what: &str,
    ) -> Option<String> {
        if !self.enabled {
            return None;
        }
        let ti = self.ix(t);
        let hi = hi.min(self.last_write.len());
        for b in lo..hi {
            let w = self.last_write[b];
            if w.valid
                && w.tid as usize != ti
                && w.clock > self.vc[ti][w.tid as usize]
                && !(atomic && w.atomic)
            {
                return Some(format!("{what} by thread {ti} at byte {b} is unordered with an earlier {} write by thread {}", if w.atomic { "atomic" } else { "plain" }, w.tid));
            }
        }
        let clock = self.vc[ti][ti];
        for b in lo..hi {
            if atomic {
                self.reads_at[ti][b] = clock;
            } else {
                self.reads_na[ti][b] = clock;
            }
        }
        None
    }
    fn acquire(&mut self, t: usize, addr: usize) {
        let ti = self.ix(t);
        if let Some(r) = self.rel.get(&addr) {
            let r = r.clone();
            join(&mut self.vc[ti], &r);
        }
    }
    fn release_store(&mut self, t: usize, addr: usize, releasing: bool) {
        let ti = self.ix(t);
        if releasing {
            self.rel.insert(addr, self.vc[ti].clone());
            self.tick(t);
        } else {
            self.rel.remove(&addr);
        }
    }
    fn release_rmw(&mut self, t: usize, addr: usize, releasing: bool) {
        let ti = self.ix(t);
        if releasing {
            let v = self.vc[ti].clone();
            let e = self.rel.entry(addr).or_insert_with(|| vec![0; v.len()]);
            join(e, &v);
            self.tick(t);
        }
        // a relaxed RMW continues the release sequence: rel[x] stays
    }
}

fn is_acq(o: Ordering) -> bool {
    matches!(o, Ordering::Acquire | Ordering::AcqRel | Ordering::SeqCst)
}
fn is_rel(o: Ordering) -> bool {
    matches!(o, Ordering::Release | Ordering::AcqRel | Ordering::SeqCst)
}

pub struct St {
    n: usize,
    current: usize,
    finished: Vec<bool>,
    idle: Vec<u32>,
    stalled: Vec<bool>,
    seen_epoch: Vec<u64>,
    write_epoch: u64,
    schedule: Vec<u8>,
    pos: usize,
    pub steps: u64,
    op_steps: Vec<u64>,
    abort: bool,
    pub viol: Option<Viol>,
    pub live: Vec<LiveB>,
    base: usize,
    cap: usize,
    data_offset: usize,
    lbound: u32,
    force: Option<(usize, u32)>,
    mark_preempt: u8,
    park_all: bool,
    parked: Vec<u32>,
    spurious: bool,
    spurious_left: Vec<u8>,
    pub classes: BTreeSet<&'static str>,
    pub cas_failures: u32,
    pub freelist_threads: BTreeSet<usize>,
    pub saw_marked: bool,
    pub switches: u64,
    race: Race,
    next_id: u32,
    mailbox: Vec<Vec<(SendBox, LiveInfo, Vec<u32>)>>,
    pub unmounts: u32,
    pub owner_changes: u32,
    last_owner: Vec<u8>,
    pub last_op: Vec<String>,
    pub inconclusive: bool,
    detect_races: bool,
    /// number of live arena values (thread values, thread clones, owned buffers incl. those in mailboxes)
    holders: usize,
    refs_addr: usize,
    freed: bool,
    arena_ptrs: Vec<usize>,
    pub unmount_thread: Option<usize>,
    /// a compare-exchange succeeded on a node word that was not reachable from the sentinel at that moment
    /// (the node had been popped and its header re-written by a thread that is about to re-insert it)
    aba_mark: Option<String>,
    /// per thread: offset of the segment it has marked and not yet unlinked or restored
    my_mark: Vec<Option<usize>>,
    /// the property whose check is running (predicates that do not endanger the run are only judged for their owner)
    owner: &'static str,
}

#[derive(Clone)]
pub struct LiveInfo {
    id: u32,
    off: usize,
    cap: usize,
}

pub struct SendBox(pub HBox);
unsafe impl Send for SendBox {}

pub struct Shared {
    m: Mutex<St>,
    cv: Condvar,
}

fn lock(s: &Shared) -> MutexGuard<'_, St> {
    match s.m.lock() {
        Ok(g) => g,
        Err(p) => p.into_inner(),
    }
}

impl St {
    fn fail(&mut self, v: Viol) {
        if self.viol.is_none() {
            self.viol = Some(v);
        }
        self.abort = true;
    }
    fn unfinished(&self) -> Vec<usize> {
        (0..self.n).filter(|i| !self.finished[*i]).collect()
    }
    fn choose(&mut self, t: usize) -> usize {
        let mut cands: Vec<usize> = (0..self.n)
            .filter(|i| !self.finished[*i] && !self.stalled[*i])
            .collect();
        if cands.is_empty() {
            cands = self.unfinished();
        }
        if cands.is_empty() {
            return MAIN;
        }
        if self.park_all {
            let free: Vec<usize> = cands
                .iter()
                .copied()
                .filter(|c| self.parked[*c] == 0)
                .collect();
            for p in self.parked.iter_mut() {
                *p = p.saturating_sub(1);
            }
            if !free.is_empty() {
                cands = free;
            }
        } else if let Some((victim, left)) = self.force {
            if left > 0 && cands.len() > 1 && cands.contains(&victim) {
                cands.retain(|c| *c != victim);
                self.force = Some((victim, left - 1));
            } else {
                self.force = None;
            }
        }
        if self.pos < self.schedule.len() {
            let b = self.schedule[self.pos] as usize;
            self.pos += 1;
            let want = b % self.n;
            // first candidate at or after `want`, cyclically
            *cands.iter().find(|c| **c >= want).unwrap_or(&cands[0])
        } else {
            // fair fallback: round robin
            let after = if t == MAIN { 0 } else { t + 1 };
            *cands.iter().find(|c| **c >= after).unwrap_or(&cands[0])
        }
    }
    fn mem(&self) -> &[u8] {
        if self.freed {
            return &[];
        }
        unsafe { std::slice::from_raw_parts(self.base as *const u8, self.cap) }
    }
    fn all_stalled(&self) -> bool {
        let u = self.unfinished();
        !u.is_empty() && u.iter().all(|i| self.stalled[*i])
    }
    fn stall_violation(&mut self) {
        let u = self.unfinished();
        let ops: Vec<String> = u
            .iter()
            .map(|i| format!("thread {i}: {}", self.last_op[*i]))
            .collect();
        let fl = self.freelist_raw();
        let marked: Vec<(u32, u32, u32)> = fl.iter().copied().filter(|n| n.1 == 0).collect();
        let sig = if self.aba_mark.is_some() {
            "stall/aba-cas-on-unlinked-node".to_string()
        } else if !marked.is_empty() {
            "stall/marked-node-never-unlinked".to_string()
        } else {
            "stall/no-progress".to_string()
        };
        let aba = self
            .aba_mark
            .clone()
            .map(|a| format!("; earlier: {a}"))
            .unwrap_or_default();
        self.fail(viol!("C07", sig, "every unfinished thread keeps re-reading unchanged words (no write by anyone for > {} scheduling points each): {}; reachable list {:?}{aba}", self.lbound, ops.join("; "), fl));
    }
    /// raw bounded walk over the list as it is reachable from the sentinel (only valid for the unified layout)
    fn freelist_raw(&self) -> Vec<(u32, u32, u32)> {
        if self.freed {
            return vec![];
        }
        // an unfinished thread still owns its arena value: walk through that one
        match self.unfinished().first() {
            Some(u) => {
                unsafe { &*(self.arena_ptrs[*u] as *const Arena) }
                    .verif_freelist(256)
                    .nodes
            }
            None => vec![],
        }
    }
}

pub struct RunB {
    pub classes: BTreeSet<&'static str>,
    pub viol: Option<Viol>,
    pub steps: u64,
    pub switches: u64,
    pub cas_failures: u32,
    pub freelist_threads: usize,
    pub saw_marked: bool,
    pub owner_changes: u32,
    pub inconclusive: bool,
}

fn unwind_abort() -> ! {
    resume_unwind(Box::new(Abort))
}

/// A scheduling point of thread `t` (before one of its atomic accesses).
fn sched_point(sh: &Shared, t: usize) {
    let mut st = lock(sh);
    if st.abort {
        drop(st);
        unwind_abort();
    }
    st.steps += 1;
    st.op_steps[t] += 1;
    if st.seen_epoch[t] == st.write_epoch {
        st.idle[t] += 1;
    } else {
        st.idle[t] = 0;
        st.seen_epoch[t] = st.write_epoch;
    }
    if st.idle[t] > st.lbound {
        st.stalled[t] = true;
        st.classes.insert("some-thread-stalled");
    }
    if st.all_stalled() {
        st.stall_violation();
        sh.cv.notify_all();
        drop(st);
        unwind_abort();
    }
    if st.op_steps[t] > 100 * st.lbound as u64 || st.steps > 400_000 {
        st.inconclusive = true;
        st.abort = true;
        sh.cv.notify_all();
        drop(st);
        unwind_abort();
    }
    let next = st.choose(t);
    if next != t {
        st.switches += 1;
        st.current = next;
        sh.cv.notify_all();
        while st.current != t && !st.abort {
            st = match sh.cv.wait(st) {
                Ok(g) => g,
                Err(p) => p.into_inner(),
            };
        }
        if st.abort {
            drop(st);
            unwind_abort();
        }
    }
}

fn trace_on() -> bool {
    static T: std::sync::OnceLock<bool> = std::sync::OnceLock::new();
    *T.get_or_init(|| std::env::var("RV_TRACE").is_ok())
}

fn after_event(sh: &Shared, t: usize, e: &Event) {
    let mut st = lock(sh);
    let in_arena = e.addr >= st.base && e.addr < st.base + st.cap;
    let off = e.addr.wrapping_sub(st.base);
    if trace_on() {
        let loc = if in_arena {
            format!("@{off}")
        } else if e.addr == st.refs_addr {
            "refs".to_string()
        } else {
            format!("hdr+{}", e.addr & 0xff)
        };
        eprintln!(
            "[{:>5}] t{t} {:?}{} {loc} read={:#x} new={:#x} wrote={} ({})",
            st.steps,
            e.kind,
            if e.weak { "w" } else { "" },
            e.old,
            e.new,
            e.wrote,
            st.last_op[t]
        );
    }
    let width = e.width as usize;
    let changed = e.wrote && e.old != e.new;
    if changed {
        st.write_epoch += 1;
        for s in st.stalled.iter_mut() {
            *s = false;
        }
    }
    if e.kind == Kind::Cas {
        if !e.wrote {
            st.cas_failures += 1;
        }
        if in_arena && width == 8 {
            st.freelist_threads.insert(t);
            if e.wrote && (e.new >> 32) == 0 && (e.old >> 32) != 0 {
                // a mark: size field -> 0
                if st.mark_preempt > 0 {
                    if st.park_all {
                        st.parked[t] = st.mark_preempt as u32;
                        st.classes.insert("marker-parked");
                        if st.parked.iter().filter(|p| **p > 0).count() >= 2 {
                            st.classes.insert("two-markers-parked-at-once");
                        }
                    } else {
                        st.force = Some((t, st.mark_preempt as u32));
                    }
                }
                st.classes.insert("mark-cas");
                st.my_mark[t] = Some(off);
            }
            // ABA symptom: a successful compare-exchange on a node word that is not linked into the list
            if e.wrote && off >= st.data_offset && st.aba_mark.is_none() && !st.freed {
                let reach = st.freelist_raw();
                if !reach.iter().any(|n| n.0 as usize == off) {
                    st.aba_mark = Some(format!("thread {t} compare-exchanged the node word at offset {off} ({:#x} -> {:#x}) while that node was not linked into the list (reachable: {:?}); doing: {}", e.old, e.new, reach, st.last_op[t]));
                    st.classes.insert("cas-on-unlinked-node");
                }
            }
            if (e.old >> 32) == 0 {
                st.saw_marked = true;
            }
        }
    }
    if e.kind == Kind::Load && in_arena && width == 8 && (e.old >> 32) == 0 {
        st.saw_marked = true;
    }
    // the marking thread finishes its removal (predecessor now skips the segment) or puts the word back
    if let Some(m) = st.my_mark[t] {
        let restored = e.kind == Kind::Store && in_arena && off == m && (e.new >> 32) != 0;
        let unlinked = e.kind == Kind::Cas
            && e.wrote
            && width == 8
            && (e.old as u32) as usize == m
            && (e.new as u32) as usize != m;
        if restored || unlinked {
            st.my_mark[t] = None;
        }
    }
    // C13: the reference count always equals the number of live arena values
    if e.addr == st.refs_addr && st.refs_addr != 0 {
        let h = st.holders as u64;
        let ok = match e.kind {
            Kind::FetchAdd | Kind::FetchSub => e.old == h,
            // the dropping thread's own acquire load after its decrement sees one less
            Kind::Load => e.old == h || e.old + 1 == h,
            _ => true,
        };
        if !ok {
            let doing = st.last_op[t].clone();
            st.fail(viol!("C13", "refs-mismatch", "thread {t} {:?} on the reference count observed {} while {h} arena values are alive (doing: {doing})", e.kind, e.old));
            sh.cv.notify_all();
            return;
        }
        st.classes.insert("refcount-checked-under-schedule");
    }
    // C02: the arena never writes into a live range
    if in_arena && e.wrote {
        let (lo, hi) = (off, off + width);
        if let Some(l) = st
            .live
            .iter()
            .find(|l| l.cap > 0 && lo < l.off + l.cap && l.off < hi)
        {
            let (lid, ltid, loff, lcap) = (l.id, l.tid, l.off, l.cap);
            let doing = st.last_op[t].clone();
            st.fail(viol!(
                "C02",
                "arena-wrote-into-live-range",
                "thread {t} {:?} at offset {off} ({:#x} -> {:#x}) inside live range #{lid} [{loff}, {}) owned by thread {ltid} (doing: {})",
                e.kind, e.old, e.new, loff + lcap, doing
            ));
            sh.cv.notify_all();
            return;
        }
    }
    // C12: clocks
    if st.detect_races {
        let addr = e.addr;
        let what = format!("arena {:?}", e.kind);
        match e.kind {
            Kind::Load => {
                if is_acq(e.success) {
                    st.race.acquire(t, addr);
                }
                if in_arena {
                    if let Some(r) = st.race.on_read(t, off, off + width, true, &what) {
                        let op = st.last_op[t].clone();
                        st.fail(viol!("C12", "race/arena-atomic-read", "{r} (doing: {op})"));
                    }
                }
            }
            Kind::Store => {
                if in_arena {
                    if let Some(r) = st.race.on_write(t, off, off + width, true, &what) {
                        let op = st.last_op[t].clone();
                        st.fail(viol!("C12", "race/arena-atomic-write", "{r} (doing: {op})"));
                    }
                }
                st.race.release_store(t, addr, is_rel(e.success));
            }
            Kind::Cas | Kind::FetchAdd | Kind::FetchSub => {
                if e.wrote {
                    if is_acq(e.success) {
                        st.race.acquire(t, addr);
                    }
                    if in_arena {
                        if let Some(r) = st.race.on_write(t, off, off + width, true, &what) {
                            let op = st.last_op[t].clone();
                            st.fail(viol!("C12", "race/arena-atomic-write", "{r} (doing: {op})"));
                        }
                    }
                    st.race.release_rmw(t, addr, is_rel(e.success));
                } else {
                    if is_acq(e.failure) {
                        st.race.acquire(t, addr);
                    }
                    if in_arena {
                        if let Some(r) = st.race.on_read(t, off, off + width, true, &what) {
                            let op = st.last_op[t].clone();
                            st.fail(viol!("C12", "race/arena-atomic-read", "{r} (doing: {op})"));
                        }
                    }
                }
            }
            _ => {}
        }
        if st.abort {
            sh.cv.notify_all();
        }
    }
}

fn mem_event(sh: &Shared, t: usize, e: &Event) {
    // MemWrite (arena zeroing) / Unmount: reported before they happen
    let mut st = lock(sh);
    if e.kind == Kind::Unmount {
        st.unmounts += 1;
        st.unmount_thread = Some(t);
        if st.holders != 1 {
            let h = st.holders;
            let doing = st.last_op[t].clone();
            st.fail(viol!("C13", "unmount-while-holders", "thread {t} releases the backing memory while {h} arena values are alive (doing: {doing})"));
            sh.cv.notify_all();
            return;
        }
        if st.detect_races && e.addr == st.base {
            let cap = st.cap;
            if let Some(r) = st
                .race
                .on_write(t, 0, cap, false, "release of the backing memory")
            {
                st.fail(viol!("C12", "race/unmount", "{r}"));
                sh.cv.notify_all();
            }
        }
        st.freed = true;
        st.classes.insert("unmounted-by-a-scheduled-thread");
        return;
    }
    let in_arena = e.addr >= st.base && e.addr < st.base + st.cap;
    if !in_arena {
        return;
    }
    let off = e.addr - st.base;
    let (lo, hi) = (off, off + e.len);
    if let Some(l) = st
        .live
        .iter()
        .find(|l| l.cap > 0 && lo < l.off + l.cap && l.off < hi)
    {
        let (lid, ltid, loff, lcap) = (l.id, l.tid, l.off, l.cap);
        let doing = st.last_op[t].clone();
        st.fail(viol!("C02", "arena-zeroed-live-range", "thread {t} zeroes [{lo}, {hi}) which intersects live range #{lid} [{loff}, {}) owned by thread {ltid} (doing: {})", loff + lcap, doing));
        sh.cv.notify_all();
        return;
    }
    if st.detect_races {
        if let Some(r) = st.race.on_write(t, lo, hi, false, "arena zeroing") {
            let op = st.last_op[t].clone();
            st.fail(viol!("C12", "race/arena-clear", "{r} (doing: {op})"));
            sh.cv.notify_all();
        }
    }
}

fn install_hook(sh: Arc<Shared>, t: usize) {
    verif::set_hook(Some(Box::new(move |e: &Event| -> Action {
        match e.kind {
            Kind::MemWrite | Kind::Unmount => {
                if e.kind == Kind::MemWrite {
                    sched_point(&sh, t);
                }
                mem_event(&sh, t, e);
                let st = lock(&sh);
                if st.abort {
                    drop(st);
                    unwind_abort();
                }
                Action::Proceed
            }
            _ => {
                if e.before {
                    sched_point(&sh, t);
                    if e.weak {
                        let mut st = lock(&sh);
                        if st.spurious && st.spurious_left[t] > 0 && (st.steps % 3 == 0) {
                            st.spurious_left[t] -= 1;
                            st.classes.insert("spurious-cas-failure");
                            return Action::SpuriousFail;
                        }
                    }
                    Action::Proceed
                } else {
                    after_event(&sh, t, e);
                    Action::Proceed
                }
            }
        }
    })));
}

struct TH {
    obj: Option<HBox>,
    info: LiveInfo,
    owned: bool,
}

fn payload_bytes(kind: u8, id: u32, cap: usize, st: &St) -> Vec<u8> {
    let mut v: Vec<u8> = (0..cap).map(|i| pat(id, i)).collect();
    if cap >= 8 {
        match kind % 4 {
            1 => {
                // forged node word: big size, next = some live offset / sentinel / a small aligned offset
                let size: u32 = 64 + (id % 900);
                let next: u32 = match id % 3 {
                    0 => u32::MAX,
                    1 => st
                        .live
                        .first()
                        .map(|l| (l.off as u32) & !7)
                        .unwrap_or(u32::MAX),
                    _ => ((st.data_offset as u32 + 7) & !7) + 8 * (id % 16),
                };
                let w = ((size as u64) << 32) | next as u64;
                v[..8].copy_from_slice(&w.to_le_bytes());
            }
            2 => {
                // a word that looks like a node being removed
                let w = st.data_offset as u64 + 8;
                v[..8].copy_from_slice(&w.to_le_bytes());
            }
            _ => {}
        }
    }
    v
}

fn run_prog(
    sh: &Arc<Shared>,
    t: usize,
    arena: &'static Arena,
    prog: &[POp],
    clones: &mut Vec<Box<Arena>>,
    hs: &mut Vec<TH>,
) {
    let set_op = |s: String| {
        let mut st = lock(sh);
        st.last_op[t] = s;
        st.op_steps[t] = 0;
        st.spurious_left[t] = 2;
    };
    for (pi, op) in prog.iter().enumerate() {
        set_op(format!("op {pi} {op:?}"));
        match op {
            POp::AllocBytes { .. }
            | POp::AllocRel { .. }
            | POp::AllocSeg { .. }
            | POp::AllocAligned { .. }
            | POp::AllocTyped { .. }
            | POp::AllocOwned { .. }
            | POp::AllocHuge { .. } => {
                // req = (kind: 0 bytes, 1 aligned, 2 typed; type index; n) - what C03 promises about the result
                let (r, payload, is_bytes, owned, req) = match op {
                    POp::AllocBytes { n, payload } => (
                        alloc_bytes(arena, *n as u32, false),
                        *payload,
                        true,
                        false,
                        (0u8, 0usize, *n as u32),
                    ),
                    POp::AllocRel { num, d, payload } => {
                        let head = arena
                            .verif_freelist(64)
                            .nodes
                            .iter()
                            .map(|n| n.1)
                            .max()
                            .unwrap_or(64) as i64;
                        let n = (head * (*num as i64 % 9) / 8 + *d as i64).clamp(1, 4096) as u32;
                        (
                            alloc_bytes(arena, n, false),
                            *payload,
                            true,
                            false,
                            (0, 0, n),
                        )
                    }
                    POp::AllocSeg { ix, d, payload } => {
                        let nodes = arena.verif_freelist(64).nodes;
                        let n = if nodes.is_empty() {
                            16
                        } else {
                            (nodes[(*ix as usize * nodes.len()) >> 8].1 as i64 + *d as i64)
                                .clamp(1, 4096) as u32
                        };
                        lock(sh).classes.insert("segment-targeted-request");
                        (
                            alloc_bytes(arena, n, false),
                            *payload,
                            true,
                            false,
                            (0, 0, n),
                        )
                    }
                    POp::AllocOwned { n } => (
                        alloc_bytes(arena, *n as u32, true),
                        0,
                        true,
                        true,
                        (0, 0, *n as u32),
                    ),
                    POp::AllocHuge { sel, d } => {
                        let (al, cp) = (arena.allocated() as i64, arena.capacity() as i64);
                        let n = match sel % 4 {
                            0 => u32::MAX as i64 - (*d as i64).abs(),
                            1 => u32::MAX as i64 - al + *d as i64,
                            2 => cp + *d as i64,
                            _ => (cp - al) + 1 + (*d as i64).abs(),
                        }
                        .clamp(1, u32::MAX as i64) as u32;
                        lock(sh).classes.insert("huge-request-under-schedule");
                        (alloc_bytes(arena, n, false), 0, true, false, (0, 0, n))
                    }
                    POp::AllocAligned { ty, n, payload } => {
                        let tix = *ty as usize % TYPES.len();
                        (
                            alloc_aligned(arena, tix, *n as u32, false),
                            *payload,
                            false,
                            false,
                            (1, tix, *n as u32),
                        )
                    }
                    POp::AllocTyped { ty, payload } => {
                        let tix = *ty as usize % TYPES.len();
                        // drop types keep their value in the handle; plain types only
                        let tix = if TYPES[tix].needs_drop { 24 } else { tix };
                        (
                            alloc_typed(arena, tix, false),
                            *payload,
                            false,
                            false,
                            (2, tix, 0),
                        )
                    }
                    _ => unreachable!(),
                };
                let Ok(mut obj) = r else {
                    lock(sh).classes.insert("alloc-failed");
                    check_no_orphan_mark(sh, t, true);
                    continue;
                };
                check_no_orphan_mark(sh, t, false);
                let (off, cap) = (obj.offset(), obj.capacity());
                // C03 under a schedule: capacity and alignment of what was returned (a retry loop that reuses a
                // value computed from a stale cursor only shows when another thread moves the cursor in between)
                {
                    let (kind, tix, n) = req;
                    let ty = &TYPES[tix];
                    let bad = match kind {
                        0 => (cap != n as usize).then(|| {
                            (
                                "bytes-capacity",
                                format!("alloc_bytes({n}) returned capacity {cap}"),
                            )
                        }),
                        1 if ty.size == 0 && (ty.align == 1 || n == 0) => {
                            (cap != n as usize).then(|| {
                                (
                                    "bytes-capacity",
                                    format!(
                                        "alloc_aligned_bytes::<{}>({n}) returned capacity {cap}",
                                        ty.name
                                    ),
                                )
                            })
                        }
                        1 => {
                            if off % ty.align != 0 {
                                Some(("aligned-offset", format!("alloc_aligned_bytes::<{}>({n}) offset {off} not a multiple of {}", ty.name, ty.align)))
                            } else if cap < ty.size + n as usize {
                                Some((
                                    "aligned-capacity",
                                    format!(
                                        "alloc_aligned_bytes::<{}>({n}) capacity {cap} < {}",
                                        ty.name,
                                        ty.size + n as usize
                                    ),
                                ))
                            } else {
                                None
                            }
                        }
                        _ => {
                            if cap != ty.size {
                                Some((
                                    "typed-capacity",
                                    format!(
                                        "alloc::<{}>() capacity {cap} != size_of {}",
                                        ty.name, ty.size
                                    ),
                                ))
                            } else if ty.size > 0 && off % ty.align != 0 {
                                Some((
                                    "typed-offset",
                                    format!(
                                        "alloc::<{}>() offset {off} not a multiple of {}",
                                        ty.name, ty.align
                                    ),
                                ))
                            } else {
                                None
                            }
                        }
                    };
                    let mine = lock(sh).owner == "C03";
                    if let (true, Some((sig, msg))) = (mine, bad) {
                        let mut st = lock(sh);
                        st.classes.insert("c03-checked-under-schedule");
                        st.fail(viol!("C03", sig, "thread {t} {op:?}: {msg}"));
                        sh.cv.notify_all();
                        drop(st);
                        std::mem::forget(obj);
                        unwind_abort();
                    }
                }
                if cap == 0 {
                    obj.detach();
                    drop(obj);
                    continue;
                }
                // registration happens between two scheduling points of this thread: atomic with the return
                let mut st = lock(sh);
                let d = st.data_offset;
                if off < d || off + cap > st.cap {
                    let acap = st.cap;
                    st.fail(viol!("C02|C04", "range-out-of-arena", "thread {t} {op:?}: returned range [{off}, {}) outside the data area [{d}, {})", off + cap, acap));
                    sh.cv.notify_all();
                    drop(st);
                    std::mem::forget(obj);
                    unwind_abort();
                }
                if let Some(l) = st
                    .live
                    .iter()
                    .find(|l| l.cap > 0 && off < l.off + l.cap && l.off < off + cap)
                {
                    let (lid, ltid, loff, lcap) = (l.id, l.tid, l.off, l.cap);
                    st.fail(viol!("C02|C04", "overlap", "thread {t} {op:?}: returned [{off}, {}) overlapping live range #{lid} [{loff}, {}) of thread {ltid}", off + cap, loff + lcap));
                    sh.cv.notify_all();
                    drop(st);
                    std::mem::forget(obj);
                    unwind_abort();
                }
                if is_bytes {
                    let m = &st.mem()[off..off + cap];
                    if m.iter().any(|b| *b != 0) {
                        st.fail(viol!(
                            "C08",
                            "not-zeroed",
                            "thread {t} {op:?}: alloc_bytes range [{off}, {}) not zero at return",
                            off + cap
                        ));
                        sh.cv.notify_all();
                        drop(st);
                        std::mem::forget(obj);
                        unwind_abort();
                    }
                }
                let id = st.next_id;
                st.next_id += 1;
                // the owner's first access: a plain write of its payload
                let bytes = payload_bytes(payload, id, cap, &st);
                if let Some(r) =
                    st.race
                        .on_write(t, off, off + cap, false, "new owner's first write")
                {
                    st.fail(viol!(
                        "C12",
                        "race/handover",
                        "{r} (range [{off}, {}) handed to thread {t} by {op:?})",
                        off + cap
                    ));
                    sh.cv.notify_all();
                    drop(st);
                    std::mem::forget(obj);
                    unwind_abort();
                }
                for b in off..off + cap {
                    let prev = st.last_owner[b];
                    if prev != 0 && prev != t as u8 + 1 {
                        st.owner_changes += 1;
                        st.classes.insert("range-changed-owner-thread");
                        break;
                    }
                }
                for b in off..off + cap {
                    st.last_owner[b] = t as u8 + 1;
                }
                unsafe {
                    std::ptr::copy_nonoverlapping(bytes.as_ptr(), (st.base + off) as *mut u8, cap)
                };
                st.live.push(LiveB {
                    id,
                    tid: t,
                    off,
                    cap,
                    expect: bytes,
                });
                if owned {
                    st.holders += 1;
                }
                if payload % 4 != 0 && cap >= 8 {
                    st.classes.insert("forged-payload");
                }
                drop(st);
                hs.push(TH {
                    obj: Some(obj),
                    info: LiveInfo { id, off, cap },
                    owned,
                });
            }
            POp::Drop { h } => {
                if hs.is_empty() {
                    continue;
                }
                let i = pick(*h, hs.len());
                let th = hs.remove(i);
                release_check(sh, t, &th.info);
                if let Some(obj) = th.obj {
                    drop(obj);
                    if th.owned {
                        lock(sh).holders -= 1;
                    }
                }
                check_no_orphan_mark(sh, t, false);
            }
            POp::Discard => {
                let _ = arena.discard_freelist();
                check_no_orphan_mark(sh, t, false);
            }
            POp::CloneArena => {
                if clones.len() < 3 {
                    clones.push(Box::new(arena.clone()));
                    let mut st = lock(sh);
                    st.holders += 1;
                    st.classes.insert("thread-cloned-arena");
                }
            }
            POp::DropClone => {
                if let Some(c) = clones.pop() {
                    drop(c);
                    lock(sh).holders -= 1;
                }
            }
            POp::Send { h, to } => {
                let cands: Vec<usize> = hs
                    .iter()
                    .enumerate()
                    .filter(|(_, x)| x.owned)
                    .map(|(i, _)| i)
                    .collect();
                if cands.is_empty() {
                    continue;
                }
                let i = cands[pick(*h, cands.len())];
                let th = hs.remove(i);
                let mut st = lock(sh);
                let to = *to as usize % st.n;
                if to == t || st.finished[to] {
                    drop(st);
                    hs.push(th);
                    continue;
                }
                let ti = st.race.ix(t);
                let vc = st.race.vc[ti].clone();
                st.race.tick(t);
                if let Some(l) = st.live.iter_mut().find(|l| l.id == th.info.id) {
                    l.tid = to;
                }
                st.mailbox[to].push((SendBox(th.obj.unwrap()), th.info, vc));
                st.classes.insert("owned-buffer-sent");
            }
            POp::Recv => {
                let mut st = lock(sh);
                let items: Vec<(SendBox, LiveInfo, Vec<u32>)> = st.mailbox[t].drain(..).collect();
                for (b, info, vc) in items {
                    let ti = st.race.ix(t);
                    join(&mut st.race.vc[ti], &vc);
                    hs.push(TH {
                        obj: Some(b.0),
                        info,
                        owned: true,
                    });
                    st.classes.insert("owned-buffer-received");
                }
            }
        }
    }
    // end of program: take what others sent, keep what is still held (forever), but let go of the handle
    // objects and the arena values
    set_op("end-of-program".to_string());
    {
        let mut st = lock(sh);
        let items: Vec<(SendBox, LiveInfo, Vec<u32>)> = st.mailbox[t].drain(..).collect();
        for (b, info, vc) in items {
            let ti = st.race.ix(t);
            join(&mut st.race.vc[ti], &vc);
            hs.push(TH {
                obj: Some(b.0),
                info,
                owned: true,
            });
            st.classes.insert("owned-buffer-received");
        }
    }
    // what this thread still holds stays handed out (and in the shadow map) for as long as the arena
    // lives: "threads may keep allocations for ever". Only the handle objects go away here.
    for th in hs.drain(..) {
        if let Some(mut o) = th.obj {
            if th.owned {
                // an owned buffer dropped by a thread other than its creator releases memory and a reference
                release_check(sh, t, &th.info);
                drop(o);
                lock(sh).holders -= 1;
            } else {
                o.detach();
                drop(o);
            }
        }
    }
    while let Some(c) = clones.pop() {
        drop(c);
        lock(sh).holders -= 1;
    }
}

/// An operation has returned: a segment it marked must have been unlinked or restored by now.
fn check_no_orphan_mark(sh: &Arc<Shared>, t: usize, failed: bool) {
    let mut st = lock(sh);
    let Some(m) = st.my_mark[t].take() else {
        return;
    };
    if st.freed {
        return;
    }
    let reach = st.freelist_raw();
    if reach.iter().any(|n| n.0 as usize == m && n.1 == 0) {
        let doing = st.last_op[t].clone();
        let v = if failed {
            viol!("C04|C07", "failed-call-left-marked-segment", "thread {t}: {doing} failed but left the segment at offset {m} marked (size 0) and linked: the failed call changed the free list; reachable list {:?}", reach)
        } else {
            viol!("C07", "returned-leaving-marked-segment", "thread {t}: {doing} returned leaving the segment at offset {m} marked (size 0) and linked; reachable list {:?}", reach)
        };
        st.fail(v);
        sh.cv.notify_all();
        drop(st);
        unwind_abort();
    }
}

/// The owner's last access before a release: verify (plain read) and take the range out of the shadow map.
fn release_check(sh: &Arc<Shared>, t: usize, info: &LiveInfo) {
    let mut st = lock(sh);
    let Some(ix) = st.live.iter().position(|l| l.id == info.id) else {
        return;
    };
    let l = st.live.remove(ix);
    let ok = st.mem()[l.off..l.off + l.cap] == l.expect[..];
    if !ok {
        let p = (0..l.cap)
            .find(|i| st.mem()[l.off + i] != l.expect[*i])
            .unwrap_or(0);
        let now = st.mem()[l.off + p];
        st.fail(viol!("C02", "bytes-changed", "live range #{} [{}, {}) of thread {t}: byte +{p} changed {:#x} -> {:#x} while it was live", l.id, l.off, l.off + l.cap, l.expect[p], now));
        sh.cv.notify_all();
        drop(st);
        unwind_abort();
    }
    if let Some(r) = st
        .race
        .on_read(t, l.off, l.off + l.cap, false, "owner's last read")
    {
        st.fail(viol!("C12", "race/owner-read", "{r}"));
        sh.cv.notify_all();
        drop(st);
        unwind_abort();
    }
}

/// Whoever is about to drop the last arena value verifies, while the memory still exists, that every range
/// still handed out (kept for ever by some thread, or left by the pre-history) holds its bytes.
fn final_verify_if_last(sh: &Arc<Shared>) {
    let mut st = lock(sh);
    if st.holders != 1 || st.freed {
        return;
    }
    let mem = st.mem().to_vec();
    let mut bad = None;
    for l in &st.live {
        if mem[l.off..l.off + l.cap] != l.expect[..] {
            let p = (0..l.cap)
                .find(|i| mem[l.off + i] != l.expect[*i])
                .unwrap_or(0);
            bad = Some(viol!("C02", "bytes-changed", "range #{} [{}, {}) (kept by thread {}) does not hold its bytes at the end of the run: byte +{p} {:#x} -> {:#x}", l.id, l.off, l.off + l.cap, if l.tid == MAIN { -1 } else { l.tid as i64 }, l.expect[p], mem[l.off + p]));
            break;
        }
    }
    st.classes.insert("final-verification-done");
    // quiescent point: every other arena value is gone, so no operation is in flight. The free list as reachable
    // from the sentinel must not hold a marked segment (the next traversal would wait for a marker that does not
    // exist - C07), and no free segment may intersect a range that is still handed out or another free segment
    // (the next allocation served from it would overlap - C02; well-formedness at a quiescent point - C10)
    if bad.is_none() {
        let me = st
            .arena_ptrs
            .iter()
            .enumerate()
            .find(|(i, _)| !st.finished[*i])
            .map(|(_, p)| *p);
        if let Some(p) = me {
            let snap = unsafe { &*(p as *const Arena) }.verif_freelist(256);
            let nodes = snap.nodes;
            let known = st.aba_mark.clone();
            if let Some(n) = nodes.iter().find(|n| n.1 == 0) {
                let sig = if known.is_some() {
                    "stall/aba-cas-on-unlinked-node"
                } else {
                    "quiescent/marked-segment-left"
                };
                let aba = known
                    .clone()
                    .map(|a| format!("; earlier: {a}"))
                    .unwrap_or_default();
                bad = Some(viol!("C07", sig, "all operations have returned but the segment at offset {} is still linked and marked (size 0): the next alloc / dealloc / discard_freelist that meets it never returns; reachable list {:?}{aba}", n.0, nodes));
            } else if known.is_none() {
                let ext: Vec<(usize, usize)> = nodes
                    .iter()
                    .map(|n| (n.0 as usize, n.0 as usize + 8 + n.1 as usize))
                    .collect();
                'outer: for (k, e) in ext.iter().enumerate() {
                    if let Some(l) = st
                        .live
                        .iter()
                        .find(|l| l.cap > 0 && e.0 < l.off + l.cap && l.off < e.1)
                    {
                        bad = Some(viol!("C02|C10", "free-segment-overlaps-live", "at the end of the run the free segment [{}, {}) intersects range #{} [{}, {}) that is still handed out; reachable list {:?}", e.0, e.1, l.id, l.off, l.off + l.cap, nodes));
                        break;
                    }
                    for f in &ext[k + 1..] {
                        if e.0 < f.1 && f.0 < e.1 {
                            bad = Some(viol!("C02|C10", "free-segments-overlap", "at the end of the run the free segments [{}, {}) and [{}, {}) intersect; reachable list {:?}", e.0, e.1, f.0, f.1, nodes));
                            break 'outer;
                        }
                    }
                }
            }
            st.classes.insert("quiescent-freelist-checked");
        }
    }
    if let Some(v) = bad {
        st.fail(v);
        sh.cv.notify_all();
        drop(st);
        unwind_abort();
    }
}

pub struct OptsB {
    pub detect_races: bool,
    pub owner: &'static str,
}

pub fn run_case_b(case: &CaseB, o: &OptsB) -> RunB {
    crate::enga::set_owner(Some(o.owner));
    let r = run_case_b_inner(case, o);
    let f = crate::enga::take_foreign();
    crate::enga::set_owner(None);
    let mut r = r;
    if r.viol.is_none() {
        r.viol = f;
    }
    r
}

fn run_case_b_inner(case: &CaseB, o: &OptsB) -> RunB {
    let mut out = RunB {
        classes: BTreeSet::new(),
        viol: None,
        steps: 0,
        switches: 0,
        cas_failures: 0,
        freelist_threads: 0,
        saw_marked: false,
        owner_changes: 0,
        inconclusive: false,
    };
    let n = case.progs.len().clamp(1, 5);
    // 1. arena + pre-history on the main thread (Engine A, unscheduled)
    let mut cfg = case.cfg.clone();
    cfg.flavor = crate::case::Fl::Sync;
    // any backend: code paths that look at the kind of backing store (file-backed, memory map) run under the scheduler
    // too; the file of a file-backed arena is unlinked as soon as the pre-history is done (the mapping stays)
    let mut w = match World::<Arena>::new(&cfg, Mode::default()) {
        Ok(Some(w)) => w,
        Ok(None) => return out,
        Err(v) => {
            out.viol = Some(v);
            return out;
        }
    };
    for (i, op) in case.pre.iter().enumerate() {
        if let Err(v) = w.step(i, op) {
            out.viol = Some(v);
            w.leak();
            return out;
        }
    }
    if let Err(v) = w.detach_all() {
        out.viol = Some(v);
        w.leak();
        return out;
    }
    verif::set_hook(None);
    let arena0 = w.a();
    let base = arena0.raw_ptr() as usize;
    let cap = arena0.capacity();
    let data_offset = arena0.data_offset();
    let nodes = arena0.verif_freelist(64).nodes.len();
    // where the reference count lives: observe one refs() load
    let refs_addr = {
        let cell = std::rc::Rc::new(std::cell::Cell::new(0usize));
        let c2 = cell.clone();
        verif::set_hook(Some(Box::new(move |e: &Event| {
            if e.kind == Kind::Load && e.before {
                c2.set(e.addr);
            }
            Action::Proceed
        })));
        let _ = arena0.refs();
        verif::set_hook(None);
        cell.get()
    };
    let lbound = 8
        * (nodes as u32 + 2 + case.progs.iter().map(|p| p.len() as u32).sum::<u32>())
        * cfg.retries.max(1) as u32
        + 64;
    let mut live: Vec<LiveB> = Vec::new();
    let mut next_id = 1u32;
    for h in &w.hs {
        if h.cap > 0 {
            live.push(LiveB {
                id: next_id,
                tid: MAIN,
                off: h.off,
                cap: h.cap,
                expect: h.expect.clone(),
            });
            next_id += 1;
        }
    }
    // thread 0 gets the original arena value, the others a clone each; the main thread keeps none, so the
    // backing memory is released by whichever thread drops the last value, under the scheduler
    let ix0 = w.first();
    let a0: Box<Arena> = w.arenas[ix0].take().unwrap();
    w.hs.clear();
    w.leak();
    let mut values: Vec<Box<Arena>> = Vec::new();
    for _ in 1..n {
        values.push(Box::new((*a0).clone()));
    }
    values.insert(0, a0);
    let arena_ptrs: Vec<usize> = values
        .iter()
        .map(|b| &**b as *const Arena as usize)
        .collect();
    let st = St {
        n,
        current: MAIN,
        finished: vec![false; n],
        idle: vec![0; n],
        stalled: vec![false; n],
        seen_epoch: vec![0; n],
        write_epoch: 1,
        schedule: case.schedule.clone(),
        pos: 0,
        steps: 0,
        op_steps: vec![0; n],
        abort: false,
        viol: None,
        live,
        base,
        cap,
        data_offset,
        lbound,
        force: None,
        mark_preempt: case.mark_preempt,
        park_all: case.park_all,
        parked: vec![0; n],
        spurious: case.spurious,
        spurious_left: vec![2; n],
        classes: BTreeSet::new(),
        cas_failures: 0,
        freelist_threads: BTreeSet::new(),
        saw_marked: false,
        switches: 0,
        race: Race::new(n, cap, o.detect_races),
        next_id,
        mailbox: (0..n).map(|_| Vec::new()).collect(),
        unmounts: 0,
        owner_changes: 0,
        last_owner: vec![0; cap],
        last_op: vec![String::new(); n],
        inconclusive: false,
        detect_races: o.detect_races,
        holders: n,
        refs_addr,
        freed: false,
        arena_ptrs,
        unmount_thread: None,
        aba_mark: None,
        my_mark: vec![None; n],
        owner: o.owner,
    };
    let sh = Arc::new(Shared {
        m: Mutex::new(st),
        cv: Condvar::new(),
    });
    // main's existing writes (pre-history payloads) happen-before the threads: spawn edge
    {
        let mut st = lock(&sh);
        let mi = st.race.ix(MAIN);
        let mvc = st.race.vc[mi].clone();
        for t in 0..n {
            join(&mut st.race.vc[t], &mvc);
        }
        st.race.tick(MAIN);
    }
    // 2. threads
    let mut joins = Vec::new();
    for (t, value) in values.into_iter().enumerate() {
        let prog = case.progs[t].clone();
        let sh2 = sh.clone();
        let cp = Box::into_raw(value) as usize;
        joins.push(std::thread::spawn(move || {
            let clone: Box<Arena> = unsafe { Box::from_raw(cp as *mut Arena) };
            let aref: &'static Arena = unsafe { &*(&*clone as *const Arena) };
            install_hook(sh2.clone(), t);
            {
                let mut st = lock(&sh2);
                while st.current != t && !st.abort {
                    st = match sh2.cv.wait(st) {
                        Ok(g) => g,
                        Err(p) => p.into_inner(),
                    };
                }
            }
            let mut clones: Vec<Box<Arena>> = Vec::new();
            let mut hs: Vec<TH> = Vec::new();
            let aborted_early = lock(&sh2).abort;
            let mut clone = Some(clone);
            let r = if aborted_early {
                Err(Box::new(Abort) as Box<dyn std::any::Any + Send>)
            } else {
                catch_unwind(AssertUnwindSafe(|| {
                    run_prog(&sh2, t, aref, &prog, &mut clones, &mut hs);
                    // the thread's own arena value goes last
                    {
                        let mut st = lock(&sh2);
                        st.last_op[t] = "drop of the thread's arena value".into();
                        st.op_steps[t] = 0;
                    }
                    final_verify_if_last(&sh2);
                    drop(clone.take());
                    lock(&sh2).holders -= 1;
                }))
            };
            verif::set_hook(None);
            if let Err(p) = r {
                if !p.is::<Abort>() {
                    let m = p
                        .downcast_ref::<&str>()
                        .map(|s| s.to_string())
                        .or_else(|| p.downcast_ref::<String>().cloned())
                        .unwrap_or_default();
                    let mut st = lock(&sh2);
                    let op = st.last_op[t].clone();
                    st.fail(viol!(
                        "C04",
                        "panic/thread",
                        "thread {t} panicked during {op}: {m}"
                    ));
                }
                // never run arena code again for this case
                std::mem::forget(hs);
                std::mem::forget(clones);
                std::mem::forget(clone);
            }
            let mut st = lock(&sh2);
            st.finished[t] = true;
            if !st.abort && st.all_stalled() {
                st.stall_violation();
            }
            let next = if st.abort { MAIN } else { st.choose(t) };
            st.current = next;
            sh2.cv.notify_all();
        }));
    }
    // 3. hand the baton to the first thread and wait
    {
        let mut st = lock(&sh);
        let first = st.choose(MAIN);
        st.current = first;
        sh.cv.notify_all();
        let t0 = std::time::Instant::now();
        while !st.finished.iter().all(|f| *f) {
            let (g, _) = match sh.cv.wait_timeout(st, Duration::from_millis(200)) {
                Ok(x) => x,
                Err(p) => p.into_inner(),
            };
            st = g;
            if st.abort {
                sh.cv.notify_all();
            }
            if t0.elapsed() > Duration::from_secs(60) {
                // a thread is stuck outside any scheduling point: infrastructure, not a verdict
                eprintln!("engine B: case exceeded 60 s wall clock; aborting process");
                std::process::exit(2);
            }
        }
    }
    for j in joins {
        let _ = j.join();
    }
    // 4. after the join: buffers still sitting in a mailbox are dropped by the main thread; if they hold
    // the last arena values the backing memory is released here
    let aborted = {
        let st = lock(&sh);
        st.abort || st.viol.is_some()
    };
    if !aborted {
        let leftovers: Vec<(SendBox, LiveInfo, Vec<u32>)> = lock(&sh)
            .mailbox
            .iter_mut()
            .flat_map(|m| m.drain(..))
            .collect();
        if !leftovers.is_empty() {
            {
                // main is the last holder's dropper: verify while the memory exists
                let mut st = lock(&sh);
                if !st.freed {
                    let mem = st.mem().to_vec();
                    let bad = st
                        .live
                        .iter()
                        .find(|l| mem[l.off..l.off + l.cap] != l.expect[..])
                        .map(|l| (l.id, l.off, l.cap));
                    if let Some((id, off, cap)) = bad {
                        st.fail(viol!(
                            "C02",
                            "bytes-changed",
                            "range #{id} [{off}, {}) does not hold its bytes at the end of the run",
                            off + cap
                        ));
                    }
                }
            }
            let sh3 = sh.clone();
            verif::set_hook(Some(Box::new(move |e: &Event| {
                if e.kind == Kind::Unmount {
                    let mut st = lock(&sh3);
                    st.unmounts += 1;
                    st.freed = true;
                }
                Action::Proceed
            })));
            let k = leftovers.len();
            drop(leftovers);
            verif::set_hook(None);
            let mut st = lock(&sh);
            st.holders -= k;
            st.classes.insert("mailbox-leftovers-dropped-by-main");
        }
        let mut st = lock(&sh);
        if st.viol.is_none() {
            let (u, h) = (st.unmounts, st.holders);
            if u != 1 || h != 0 {
                st.fail(viol!("C13", "unmount-count", "after every arena value was dropped the backing memory had been released {u} time(s) (model: {h} values still alive)"));
            }
        }
    } else {
        // leak whatever is left in mailboxes
        let leftovers: Vec<(SendBox, LiveInfo, Vec<u32>)> = lock(&sh)
            .mailbox
            .iter_mut()
            .flat_map(|m| m.drain(..))
            .collect();
        std::mem::forget(leftovers);
    }
    let mut st = lock(&sh);
    out.classes = st.classes.clone();
    if let Some(t) = st.unmount_thread {
        if t != 0 {
            out.classes.insert("last-drop-on-non-creator-thread");
        }
    }
    out.viol = st.viol.take();
    out.steps = st.steps;
    out.switches = st.switches;
    out.cas_failures = st.cas_failures;
    out.freelist_threads = st.freelist_threads.len();
    out.saw_marked = st.saw_marked;
    out.owner_changes = st.owner_changes;
    out.inconclusive = st.inconclusive;
    out
}
