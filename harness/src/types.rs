//! Type table used by typed / aligned allocations: concrete `#[repr(C, align(A))]` types so that
//! every `alloc::<T>` the harness makes is real monomorphic code.

use std::cell::RefCell;
use std::collections::HashMap;

pub fn pat(id: u32, i: usize) -> u8 {
    // never zero, depends on both id and position
    let x = (id as u64)
        .wrapping_mul(0x9E37_79B9_7F4A_7C15)
        .wrapping_add((i as u64).wrapping_mul(0x0100_0000_01B3));
    ((x >> 24) as u8) | 1
}

thread_local! {
    pub static DROPS: RefCell<HashMap<u64, u32>> = RefCell::new(HashMap::new());
}

pub fn drops_of(id: u64) -> u32 {
    DROPS.with(|d| d.borrow().get(&id).copied().unwrap_or(0))
}
pub fn reset_drops() {
    DROPS.with(|d| d.borrow_mut().clear());
}

pub trait Ty: Sized + 'static {
    const NEEDS_DROP: bool;
    /// Builds a value whose bytes follow the pattern `id` (plain types) or that carries `id` (drop types).
    fn make(id: u32) -> Self;
}

#[derive(Clone, Copy, Debug)]
pub struct TyMeta {
    pub name: &'static str,
    pub size: usize,
    pub align: usize,
    pub needs_drop: bool,
}

macro_rules! plain {
    ($name:ident, $a:literal, $s:literal) => {
        #[repr(C, align($a))]
        #[derive(Clone, Copy)]
        pub struct $name(pub [u8; $s]);
        impl Ty for $name {
            const NEEDS_DROP: bool = false;
            fn make(id: u32) -> Self {
                let mut b = [0u8; $s];
                for (i, x) in b.iter_mut().enumerate() {
                    *x = pat(id, i);
                }
                $name(b)
            }
        }
    };
}

macro_rules! dropty {
    ($name:ident, $a:literal, $padty:ty) => {
        #[repr(C, align($a))]
        pub struct $name {
            pub id: u32,
            pub pad: $padty,
        }
        impl Ty for $name {
            const NEEDS_DROP: bool = true;
            fn make(id: u32) -> Self {
                $name {
                    id,
                    pad: Default::default(),
                }
            }
        }
        impl Drop for $name {
            fn drop(&mut self) {
                let id = self.id as u64;
                DROPS.with(|d| *d.borrow_mut().entry(id).or_insert(0) += 1);
            }
        }
    };
}

plain!(A1S0, 1, 0);
plain!(A1S1, 1, 1);
plain!(A1S2, 1, 2);
plain!(A1S3, 1, 3);
plain!(A1S5, 1, 5);
plain!(A1S7, 1, 7);
plain!(A1S8, 1, 8);
plain!(A1S9, 1, 9);
plain!(A1S17, 1, 17);
plain!(A1S33, 1, 33);
plain!(A1S64, 1, 64);
plain!(A2S0, 2, 0);
plain!(A2S2, 2, 2);
plain!(A2S6, 2, 6);
plain!(A2S10, 2, 10);
plain!(A4S0, 4, 0);
plain!(A4S4, 4, 4);
plain!(A4S12, 4, 12);
plain!(A4S20, 4, 20);
plain!(A8S0, 8, 0);
plain!(A8S8, 8, 8);
plain!(A8S16, 8, 16);
plain!(A8S24, 8, 24);
plain!(A8S40, 8, 40);
plain!(A8S64, 8, 64);
plain!(A16S0, 16, 0);
plain!(A16S16, 16, 16);
plain!(A16S32, 16, 32);
plain!(A16S48, 16, 48);
dropty!(D4, 4, [u8; 0]);
dropty!(D8, 8, u32);
dropty!(D16, 16, [u32; 3]);
dropty!(D4S12, 4, [u32; 2]);
// a drop type larger than 256 bytes (a handle that carries its value is as large as the value)
dropty!(D4S260, 4, [[u32; 32]; 2]);

thread_local! {
    /// drops of zero-sized drop types (they cannot carry an id): a plain counter, read around single operations
    pub static ZST_DROPS: std::cell::Cell<u64> = const { std::cell::Cell::new(0) };
}
pub fn zst_drops() -> u64 {
    ZST_DROPS.with(|c| c.get())
}
macro_rules! zstdrop {
    ($name:ident, $a:literal) => {
        /// zero-sized type with a destructor (a guard / token type)
        #[repr(C, align($a))]
        pub struct $name;
        impl Ty for $name {
            const NEEDS_DROP: bool = true;
            fn make(_id: u32) -> Self {
                $name
            }
        }
        impl Drop for $name {
            fn drop(&mut self) {
                ZST_DROPS.with(|c| c.set(c.get() + 1));
            }
        }
    };
}
zstdrop!(DZ1, 1);
zstdrop!(DZ8, 8);

pub trait Visitor {
    type Out;
    fn visit<T: Ty>(self, meta: &TyMeta) -> Self::Out;
}

macro_rules! table {
    ($($name:ident),* $(,)?) => {
        pub const TYPES: &[TyMeta] = &[
            $(TyMeta {
                name: stringify!($name),
                size: std::mem::size_of::<$name>(),
                align: std::mem::align_of::<$name>(),
                needs_drop: <$name as Ty>::NEEDS_DROP,
            }),*
        ];
        pub fn dispatch<V: Visitor>(ix: usize, v: V) -> V::Out {
            let mut _i = 0usize;
            $(
                if ix == _i { return v.visit::<$name>(&TYPES[ix]); }
                _i += 1;
            )*
            unreachable!("type index {ix} out of range")
        }
    };
}

table!(
    A1S0, A1S1, A1S2, A1S3, A1S5, A1S7, A1S8, A1S9, A1S17, A1S33, A1S64, A2S0, A2S2, A2S6, A2S10,
    A4S0, A4S4, A4S12, A4S20, A8S0, A8S8, A8S16, A8S24, A8S40, A8S64, A16S0, A16S16, A16S32,
    A16S48, D4, D8, D16, D4S12, u8, u16, u32, u64, u128, DZ1, DZ8, D4S260
);

macro_rules! prim {
    ($($t:ty),*) => {$(
        impl Ty for $t {
            const NEEDS_DROP: bool = false;
            fn make(id: u32) -> Self {
                let mut b = [0u8; std::mem::size_of::<$t>()];
                for (i, x) in b.iter_mut().enumerate() { *x = pat(id, i); }
                <$t>::from_ne_bytes(b)
            }
        }
    )*};
}
prim!(u8, u16, u32, u64, u128);

pub fn ntypes() -> usize {
    TYPES.len()
}
