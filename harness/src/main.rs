use rv::props;
use rv::runner::*;
use std::path::{Path, PathBuf};

macro_rules! with_prop {
    ($id:expr, $m:ident ! ( $($args:tt)* )) => {
        match $id {
            "C01" => $m!(props::C01, $($args)*),
            "C02" => $m!(props::C02, $($args)*),
            "C03" => $m!(props::C03, $($args)*),
            "C04" => $m!(props::C04, $($args)*),
            "C05" => $m!(props::C05, $($args)*),
            "C06" => $m!(props::C06, $($args)*),
            "C07" => $m!(props::C07, $($args)*),
            "C08" => $m!(props::C08, $($args)*),
            "C09" => $m!(props::C09, $($args)*),
            "C10" => $m!(props::C10, $($args)*),
            "C11" => $m!(props::C11, $($args)*),
            "C12" => $m!(props::C12, $($args)*),
            "C13" => $m!(props::C13, $($args)*),
            "C14" => $m!(props::C14, $($args)*),
            "C15" => $m!(props::C15, $($args)*),
            "C16" => $m!(props::C16, $($args)*),
            "C19" => $m!(props::C19, $($args)*),
            "C17" => $m!(props::C17, $($args)*),
            "C18" => $m!(props::C18, $($args)*),
            "C20" => $m!(props::C20, $($args)*),
            other => {
                eprintln!("unknown property {other}");
                std::process::exit(2);
            }
        }
    };
}

fn tier_of(s: &str) -> Tier {
    match s {
        "thorough" => Tier::Thorough,
        _ => Tier::Quick,
    }
}

/// committed minimal reproductions: `replays/<id>/` for both tiers, `replays-thorough/<id>/` (cases that are too
/// expensive for the check that runs on every change, e.g. gigabyte arenas) for the thorough tier only
fn replay_files(id: &str, tier: Tier) -> Vec<PathBuf> {
    let mut v: Vec<PathBuf> = Vec::new();
    let mut dirs = vec!["replays"];
    if tier == Tier::Thorough {
        dirs.push("replays-thorough");
    }
    for d in dirs {
        let dir = Path::new(VERIF).join(d).join(id);
        let mut w: Vec<PathBuf> = std::fs::read_dir(dir)
            .map(|d| {
                d.filter_map(|e| e.ok().map(|e| e.path()))
                    .filter(|p| p.extension().map(|x| x == "json").unwrap_or(false))
                    .collect()
            })
            .unwrap_or_default();
        w.sort();
        v.extend(w);
    }
    v
}

fn main() {
    let args: Vec<String> = std::env::args().collect();
    if args.len() < 2 {
        eprintln!("usage: rv check <Cxx> <quick|thorough> | rv replay <file> | rv worker ...");
        std::process::exit(2);
    }
    match args[1].as_str() {
        "check" => {
            let id = args[2].as_str();
            let tier = tier_of(args.get(3).map(|s| s.as_str()).unwrap_or("quick"));
            let seed: u64 = std::env::var("VERIF_SEED")
                .ok()
                .and_then(|s| s.parse().ok())
                .unwrap_or(1);
            let seed = if seed == 0 { 1 } else { seed };
            let workers: usize = std::env::var("RV_WORKERS")
                .ok()
                .and_then(|s| s.parse().ok())
                .unwrap_or(16);
            let cases_override = std::env::var("RV_CASES").ok().and_then(|s| s.parse().ok());
            macro_rules! go {
                ($p:ty, ) => {{
                    let pi = info::<$p>(tier);
                    supervise(
                        pi,
                        SupArgs {
                            tier,
                            seed,
                            workers,
                            cases_override,
                        },
                        replay_files(id, tier),
                        &|v| simplify_one::<$p>(v),
                    )
                }};
            }
            let (mut code, mut ev) = with_prop!(id, go!());
            let fuzzable = ["C01", "C03", "C04", "C08", "C10", "C13", "C20"].contains(&id);
            if fuzzable && code == 0 && (tier == Tier::Thorough || std::env::var("RV_FUZZ").is_ok())
            {
                let default_runs = if id == "C04" { 150_000 } else { 60_000 };
                let runs: u64 = std::env::var("RV_FUZZ_RUNS")
                    .ok()
                    .and_then(|s| s.parse().ok())
                    .unwrap_or(if tier == Tier::Thorough {
                        default_runs
                    } else {
                        20_000
                    });
                let (c2, fz) = fuzz_stage(id, seed, runs, 16);
                if let Some(c) = ev.get_mut("coverage") {
                    c["fuzz_stage"] = fz;
                }
                write_evidence(id, &ev);
                code = c2;
            }
            std::process::exit(code);
        }
        "worker" => {
            // worker <id> <tier> <seed> <idx> <seed_idx> <cases> <outdir> <profile>
            let id = args[2].as_str();
            let tier = tier_of(&args[3]);
            let seed: u64 = args[4].parse().unwrap();
            let idx: usize = args[5].parse().unwrap();
            let seed_idx: usize = args[6].parse().unwrap();
            let cases: u64 = args[7].parse().unwrap();
            let outdir = PathBuf::from(&args[8]);
            let profile = args[9].clone();
            macro_rules! go {
                ($p:ty, ) => {
                    worker::<$p>(tier, seed, idx, seed_idx, cases, &outdir, &profile)
                };
            }
            with_prop!(id, go!());
        }
        "replay" => {
            let file = PathBuf::from(&args[2]);
            let quiet = args.iter().any(|a| a == "--quiet");
            if quiet {
                silence_panics();
            }
            let b = std::fs::read(&file).unwrap_or_else(|e| {
                eprintln!("cannot read {}: {e}", file.display());
                std::process::exit(2)
            });
            let rf: ReplayFile = serde_json::from_slice(&b).unwrap_or_else(|e| {
                eprintln!("bad replay file: {e}");
                std::process::exit(2)
            });
            let id = rf.property.clone();
            macro_rules! go {
                ($p:ty, ) => {
                    replay_one::<$p>(&rf.case)
                };
            }
            let r = with_prop!(id.as_str(), go!());
            match r {
                Err(e) => {
                    eprintln!("{e}");
                    std::process::exit(2);
                }
                Ok(None) => {
                    if !quiet {
                        println!("replay {}: property {id} held", file.display());
                    }
                    std::process::exit(0);
                }
                Ok(Some(v)) => {
                    if rv::enga::owns(v.prop, &id) {
                        println!("VIOLATION property={id} replay={}", file.display());
                        println!("  sig={} {}", v.sig, v.msg);
                        std::process::exit(1);
                    } else {
                        println!(
                            "replay {}: property {id} held (a predicate of {} failed: sig={} {})",
                            file.display(),
                            v.prop,
                            v.sig,
                            v.msg
                        );
                        std::process::exit(0);
                    }
                }
            }
        }
        _ => {
            eprintln!("unknown command");
            std::process::exit(2);
        }
    }
}
