//! Byte-level decoder used by the libFuzzer target: turns an arbitrary byte string into an Engine A
//! case (structure-aware, so the fuzzer reaches allocator logic instead of dying in input validation).

use crate::case::*;
use arbitrary::Unstructured;

fn size(u: &mut Unstructured<'_>) -> arbitrary::Result<Size> {
    Ok(match u.int_in_range(0u8..=19)? {
        0 => Size::Abs(0),
        1..=7 => Size::Abs(u.int_in_range(1u32..=48)?),
        8..=9 => Size::Abs(u.int_in_range(49u32..=700)?),
        10..=11 => Size::Rem(u.int_in_range(-9i8..=9)?),
        12..=14 => Size::Seg(u.int_in_range(0u8..=2)?, u.int_in_range(-9i8..=9)?),
        15 => Size::MaxMinus(u.int_in_range(0u8..=63)?),
        16 => Size::WrapAt(u.int_in_range(-40i8..=40)?),
        17 => Size::Half(u.int_in_range(-2i8..=2)?),
        18 => Size::Cap(u.int_in_range(-20i8..=20)?),
        _ => Size::Abs(u.arbitrary::<u32>()?),
    })
}

pub fn decode_case_a(data: &[u8]) -> Option<CaseA> {
    let mut u = Unstructured::new(data);
    let r = (|| -> arbitrary::Result<CaseA> {
        let nt = crate::types::ntypes() as u8;
        let cfg = Cfg {
            flavor: if u.arbitrary::<bool>()? {
                Fl::Sync
            } else {
                Fl::Unsync
            },
            freelist: u.int_in_range(0u8..=2)?,
            // Vec backend only: its heap block has AddressSanitizer red zones on both sides
            backend: Backend::Vec,
            unify: u.arbitrary()?,
            reserved: *u.choose(&[0u32, 0, 0, 1, 5, 8, 9, 16, 33])?,
            cap_extra: u.int_in_range(0u32..=640)?,
            min_seg: *u.choose(&[20u32, 20, 0, 1, 8, 48])?,
            max_align: *u.choose(&[1u8, 2, 4, 8, 16])?,
            magic: 0,
            retries: u.int_in_range(1u8..=5)?,
            off_pages: 0,
            create_new: false,
            teardown: u.int_in_range(0u8..=2)?,
            pb: false,
        };
        let mut ops = Vec::new();
        while !u.is_empty() && ops.len() < 48 {
            let op = match u.int_in_range(0u8..=23)? {
                0..=6 => Op::AllocBytes {
                    n: size(&mut u)?,
                    owned: u.ratio(1u8, 4u8)?,
                    via: u.arbitrary()?,
                },
                7..=8 => Op::AllocAligned {
                    ty: u.int_in_range(0..=nt - 1)?,
                    n: size(&mut u)?,
                    owned: u.ratio(1u8, 4u8)?,
                    via: u.arbitrary()?,
                },
                9..=11 => Op::AllocTyped {
                    ty: u.int_in_range(0..=nt - 1)?,
                    owned: u.ratio(1u8, 4u8)?,
                    via: u.arbitrary()?,
                },
                12 => Op::Fill {
                    slack: u.int_in_range(0u8..=23)?,
                },
                13 => Op::Write { h: u.arbitrary()? },
                14..=17 => Op::Drop { h: u.arbitrary()? },
                18 => Op::Detach { h: u.arbitrary()? },
                19 => Op::DeallocDetached { h: u.arbitrary()? },
                20 => Op::DiscardFreelist,
                21 => Op::SetMinSeg {
                    v: u.int_in_range(0u32..=100)?,
                },
                22 => Op::CloneArena,
                _ => Op::DropArena { a: u.arbitrary()? },
            };
            ops.push(op);
        }
        Ok(CaseA { cfg, ops })
    })();
    r.ok()
}
