//! Abstractions over the two arena flavours and over the four handle types.

use crate::types::{dispatch, pat, Ty, TyMeta, Visitor};
use rarena_allocator::{
    sync, unsync, verif::FreelistSnapshot, Allocator, Buffer, BytesMut, BytesRefMut, Error, Owned,
    RefMut,
};

pub trait Flavor: Allocator + Clone + Sized + 'static {
    const SYNC: bool;
    const NAME: &'static str;
    fn fl(&self) -> FreelistSnapshot;
    /// `None` when the flavour has no truncate.
    fn truncate_(&mut self, n: usize) -> Option<std::io::Result<()>>;
}

impl Flavor for sync::Arena {
    const SYNC: bool = true;
    const NAME: &'static str = "sync";
    fn fl(&self) -> FreelistSnapshot {
        self.verif_freelist(self.capacity() / 8 + 4)
    }
    fn truncate_(&mut self, _n: usize) -> Option<std::io::Result<()>> {
        None
    }
}

impl Flavor for unsync::Arena {
    const SYNC: bool = false;
    const NAME: &'static str = "unsync";
    fn fl(&self) -> FreelistSnapshot {
        self.verif_freelist(self.capacity() / 8 + 4)
    }
    fn truncate_(&mut self, n: usize) -> Option<std::io::Result<()>> {
        Some(self.truncate(n))
    }
}

#[derive(Clone, Copy, Debug, PartialEq, Eq, serde::Serialize, serde::Deserialize)]
pub enum HKind {
    Bytes,
    Aligned,
    Typed,
}

/// Type-erased handle. Dropping the box runs the real `Drop` of the underlying handle.
pub trait HandleObj {
    fn offset(&self) -> usize;
    fn capacity(&self) -> usize;
    fn buffer_offset(&self) -> usize;
    fn buffer_capacity(&self) -> usize;
    fn detach(&mut self);
    /// address reported by `as_mut_ptr`
    fn addr(&mut self) -> usize;
    /// writes pattern / value `id` through the handle; returns true if the write lands in arena memory
    fn write(&mut self, id: u32) -> bool;
    /// for drop types held by a detached handle: the user's manual drop of the value
    fn drop_value(&mut self) {}
    /// the handle as a bytes buffer when it is one
    fn as_bytes_ref(&mut self) -> Option<&mut dyn BytesLike> {
        None
    }
}

/// The writer/reader surface shared by `BytesRefMut` and `BytesMut` (used by C14).
pub trait BytesLike {
    fn len_(&self) -> usize;
}

impl<A: Flavor> HandleObj for BytesRefMut<'static, A> {
    fn offset(&self) -> usize {
        Buffer::offset(self)
    }
    fn capacity(&self) -> usize {
        Buffer::capacity(self)
    }
    fn buffer_offset(&self) -> usize {
        Buffer::buffer_offset(self)
    }
    fn buffer_capacity(&self) -> usize {
        Buffer::buffer_capacity(self)
    }
    fn detach(&mut self) {
        unsafe { Buffer::detach(self) }
    }
    fn addr(&mut self) -> usize {
        self.as_mut_ptr() as usize
    }
    fn write(&mut self, id: u32) -> bool {
        let cap = Buffer::capacity(self);
        if cap == 0 {
            return false;
        }
        let p = self.as_mut_ptr();
        for i in 0..cap {
            unsafe { p.add(i).write(pat(id, i)) };
        }
        true
    }
}

impl<A: Flavor> HandleObj for BytesMut<A> {
    fn offset(&self) -> usize {
        Buffer::offset(self)
    }
    fn capacity(&self) -> usize {
        Buffer::capacity(self)
    }
    fn buffer_offset(&self) -> usize {
        Buffer::buffer_offset(self)
    }
    fn buffer_capacity(&self) -> usize {
        Buffer::buffer_capacity(self)
    }
    fn detach(&mut self) {
        unsafe { Buffer::detach(self) }
    }
    fn addr(&mut self) -> usize {
        self.as_mut_ptr() as usize
    }
    fn write(&mut self, id: u32) -> bool {
        let cap = Buffer::capacity(self);
        if cap == 0 {
            return false;
        }
        let p = self.as_mut_ptr();
        for i in 0..cap {
            unsafe { p.add(i).write(pat(id, i)) };
        }
        true
    }
}

pub struct TR<T: Ty, A: Flavor>(pub RefMut<'static, T, A>, pub bool);
pub struct TO<T: Ty, A: Flavor>(pub Owned<T, A>, pub bool);

macro_rules! typed_impl {
    ($w:ident) => {
        impl<T: Ty, A: Flavor> HandleObj for $w<T, A> {
            fn offset(&self) -> usize {
                Buffer::offset(&self.0)
            }
            fn capacity(&self) -> usize {
                Buffer::capacity(&self.0)
            }
            fn buffer_offset(&self) -> usize {
                Buffer::buffer_offset(&self.0)
            }
            fn buffer_capacity(&self) -> usize {
                Buffer::buffer_capacity(&self.0)
            }
            fn detach(&mut self) {
                unsafe { Buffer::detach(&mut self.0) }
            }
            fn addr(&mut self) -> usize {
                self.0.as_mut_ptr().as_ptr() as usize
            }
            fn write(&mut self, id: u32) -> bool {
                if T::NEEDS_DROP {
                    if self.1 {
                        // already holds a value: a correct user would have to drop it first; keep it
                        return false;
                    }
                    self.1 = true;
                    self.0.write(T::make(id));
                    return false;
                }
                if std::mem::size_of::<T>() == 0 {
                    return false;
                }
                self.0.write(T::make(id));
                true
            }
            fn drop_value(&mut self) {
                if T::NEEDS_DROP && self.1 {
                    self.1 = false;
                    unsafe { std::ptr::drop_in_place(self.0.as_mut() as *mut T) };
                }
            }
        }
    };
}
typed_impl!(TR);
typed_impl!(TO);

pub type HBox = Box<dyn HandleObj>;

pub struct AllocTyped<A: Flavor> {
    pub arena: &'static A,
    pub owned: bool,
}
impl<A: Flavor> Visitor for AllocTyped<A> {
    type Out = Result<HBox, Error>;
    fn visit<T: Ty>(self, _m: &TyMeta) -> Self::Out {
        unsafe {
            if self.owned {
                self.arena
                    .alloc_owned::<T>()
                    .map(|o| Box::new(TO::<T, A>(o, false)) as HBox)
            } else {
                self.arena
                    .alloc::<T>()
                    .map(|r| Box::new(TR::<T, A>(r, false)) as HBox)
            }
        }
    }
}

pub struct AllocAligned<A: Flavor> {
    pub arena: &'static A,
    pub owned: bool,
    pub n: u32,
}
impl<A: Flavor> Visitor for AllocAligned<A> {
    type Out = Result<HBox, Error>;
    fn visit<T: Ty>(self, _m: &TyMeta) -> Self::Out {
        if self.owned {
            self.arena
                .alloc_aligned_bytes_owned::<T>(self.n)
                .map(|o| Box::new(o) as HBox)
        } else {
            self.arena
                .alloc_aligned_bytes::<T>(self.n)
                .map(|r| Box::new(r) as HBox)
        }
    }
}

pub fn alloc_typed<A: Flavor>(arena: &'static A, ty: usize, owned: bool) -> Result<HBox, Error> {
    dispatch(ty, AllocTyped { arena, owned })
}
pub fn alloc_aligned<A: Flavor>(
    arena: &'static A,
    ty: usize,
    n: u32,
    owned: bool,
) -> Result<HBox, Error> {
    dispatch(ty, AllocAligned { arena, owned, n })
}
pub fn alloc_bytes<A: Flavor>(arena: &'static A, n: u32, owned: bool) -> Result<HBox, Error> {
    if owned {
        arena.alloc_bytes_owned(n).map(|o| Box::new(o) as HBox)
    } else {
        arena.alloc_bytes(n).map(|r| Box::new(r) as HBox)
    }
}
