//! C06 - a crash at any point leaves a file that reopens to a consistent, usable arena.

use super::*;
use crate::case::{Backend, Cfg, Fl, Op};
use crate::enga::{
    base_opts, fresh_path, guard, page_size, viol, CrashSnap, LiveRec, Mode, Viol, World,
};
use crate::flavor::Flavor;
use crate::runner::{bump, fnv, open_sigs, splitmix};
use proptest::prelude::*;
use rarena_allocator::{sync, unsync, Allocator};
use serde::{Deserialize, Serialize};
use std::collections::BTreeSet;

#[derive(Clone, Debug, Serialize, Deserialize)]
pub struct CaseC06 {
    pub cfg: Cfg,
    pub ops: Vec<Op>,
    pub post: Vec<Op>,
    /// drives which crash points are evaluated when there are more than the tier's budget
    pub pick: u32,
    /// 0 = sample (quick), 1 = all crash points
    pub all: bool,
}

pub struct C06;

const BUDGET: u32 = 2_000;

fn recover<A: Flavor>(
    cfg: &Cfg,
    snap: &CrashSnap,
    live: &[LiveRec],
    post: &[Op],
    opdesc: &str,
) -> Result<BTreeSet<&'static str>, Viol> {
    // every predicate evaluated on the reopened arena is C06's own business
    let prev = crate::enga::set_owner(None);
    let r = recover_inner::<A>(cfg, snap, live, post, opdesc);
    crate::enga::set_owner(prev);
    r
}

fn recover_inner<A: Flavor>(
    cfg: &Cfg,
    snap: &CrashSnap,
    live: &[LiveRec],
    post: &[Op],
    opdesc: &str,
) -> Result<BTreeSet<&'static str>, Viol> {
    let page = page_size();
    let off = cfg.off_pages as usize * page;
    let path = fresh_path();
    let mut file = vec![0u8; off];
    file.extend_from_slice(&snap.bytes);
    std::fs::write(&path, &file)
        .map_err(|e| viol!("C05", "infra", "cannot write snapshot file: {e}"))?;
    let cap = snap.bytes.len();
    let o = base_opts(cfg)
        .with_capacity(cap as u32)
        .with_read(true)
        .with_write(true)
        .with_offset(off as u64);
    let p2 = path.clone();
    let r = guard("map_mut", "C06", || unsafe { o.map_mut::<A, _>(&p2) })?;
    let arena = match r {
        Ok(a) => a,
        Err(e) => {
            let _ = std::fs::remove_file(&path);
            return Err(viol!(
                "C06",
                "reopen-failed",
                "file as of a crash in op #{} ({opdesc}) before step {} ({}) does not open: {e}",
                snap.op,
                snap.step,
                snap.what
            ));
        }
    };
    let (d, al, c) = (arena.data_offset(), arena.allocated(), arena.capacity());
    let where_ = format!(
        "crash in op #{} ({opdesc}) before step {} ({})",
        snap.op, snap.step, snap.what
    );
    let mut fail: Option<Viol> = None;
    if !(d <= al && al <= c) {
        fail = Some(viol!(
            "C06",
            "cursor-out-of-range",
            "{where_}: reopened cursor {al} outside [data_offset {d}, capacity {c}]"
        ));
    }
    if fail.is_none() {
        let mem = arena.memory();
        for l in live {
            if l.off + l.cap > mem.len() || mem[l.off..l.off + l.cap] != l.expect[..] {
                fail = Some(viol!("C06", "live-bytes-lost", "{where_}: range [{}, {}) returned before the crash no longer holds its bytes after reopen (cursor {al})", l.off, l.off + l.cap));
                break;
            }
            if l.off + l.cap > al {
                fail = Some(viol!("C06", "live-above-cursor", "{where_}: range [{}, {}) returned before the crash lies above the reopened cursor {al}", l.off, l.off + l.cap));
                break;
            }
        }
    }
    if let Some(v) = fail {
        std::mem::forget(arena);
        let _ = std::fs::remove_file(&path);
        return Err(v);
    }
    // marked node persisted? (signature material for the known finding)
    let fl0 = arena.fl();
    let marked = fl0.nodes.iter().any(|n| n.1 == 0);
    let mut cfg2 = cfg.clone();
    cfg2.backend = Backend::File;
    let mode = Mode {
        lenient: true,
        budget: Some(BUDGET),
        ..Mode::default()
    };
    let mut w = World::<A>::adopt(&cfg2, mode, arena, Some(path.clone()), live);
    let mut classes = BTreeSet::new();
    if marked {
        classes.insert("marked-node-in-snapshot");
    }
    let s0 = w.snap();
    let mut res = w.check_invariants(&s0);
    if res.is_ok() {
        for (i, op) in post.iter().enumerate() {
            if let Err(v) = w.step(i, op) {
                res = Err(v);
                break;
            }
        }
    }
    match res {
        Ok(()) => {
            classes.extend(w.classes.iter().copied());
            // closing must work too
            let r = w.detach_all().and_then(|_| w.close_all());
            let _ = std::fs::remove_file(&path);
            match r {
                Ok(()) => {
                    w.path = None;
                    w.leak();
                    Ok(classes)
                }
                Err(v) => {
                    w.leak();
                    Err(viol!(
                        "C06",
                        format!("post-crash/{}", v.sig),
                        "{where_}: {}",
                        v.msg
                    ))
                }
            }
        }
        Err(v) => {
            w.leak();
            let _ = std::fs::remove_file(&path);
            let site = if opdesc.starts_with("Alloc") || opdesc.starts_with("Fill") {
                "alloc"
            } else if opdesc.starts_with("Discard") || opdesc.starts_with("Rewind") {
                "discard"
            } else {
                "release"
            };
            let kind = ["none", "optimistic", "pessimistic"][cfg.freelist as usize % 3];
            let sig = if marked && v.sig.starts_with("non-termination") {
                format!("marked-node-persisted/site={kind}-{site}")
            } else {
                format!("post-crash/{}", v.sig)
            };
            Err(viol!(
                "C06",
                sig,
                "{where_}: after reopen, {} (free list at reopen: {:?})",
                v.msg,
                fl0.nodes
            ))
        }
    }
}

fn run_c06<A: Flavor>(case: &CaseC06) -> CaseReport {
    let mut classes: BTreeSet<&'static str> = BTreeSet::new();
    let mut cfg = case.cfg.clone();
    if cfg.backend != Backend::File {
        cfg.unify = true;
    }
    let mode = Mode {
        crash: A::SYNC,
        ..Mode::default()
    };
    // 1. the pre-crash history, recording a snapshot at every atomic step (sync) / op boundary
    let Ok(Some(mut w)) = World::<A>::new(&cfg, mode.clone()) else {
        return CaseReport {
            nontrivial: false,
            classes,
            viol: None,
        };
    };
    let mut boundary: Vec<CrashSnap> = Vec::new();
    let mut live_log: Vec<(Vec<LiveRec>, Vec<LiveRec>, String)> = Vec::new();
    let initial = CrashSnap {
        op: 0,
        step: 0,
        what: "before-first-op".into(),
        bytes: w.mem().to_vec(),
    };
    let mut hist_viol = None;
    for (i, op) in case.ops.iter().enumerate() {
        let before: Vec<LiveRec> =
            w.hs.iter()
                .filter(|h| h.cap > 0)
                .map(|h| LiveRec {
                    id: h.id,
                    off: h.off,
                    cap: h.cap,
                    expect: h.expect.clone(),
                })
                .collect();
        if let Err(v) = w.step(i, op) {
            hist_viol = Some(v);
            break;
        }
        if !A::SYNC {
            let after: Vec<LiveRec> =
                w.hs.iter()
                    .filter(|h| h.cap > 0)
                    .map(|h| LiveRec {
                        id: h.id,
                        off: h.off,
                        cap: h.cap,
                        expect: h.expect.clone(),
                    })
                    .collect();
            live_log.push((before, after, format!("{op:?}")));
            boundary.push(CrashSnap {
                op: i,
                step: u32::MAX,
                what: "end-of-op".into(),
                bytes: w.crash_bytes(),
            });
        }
    }
    if let Some(v) = hist_viol {
        classes.extend(w.classes.iter().copied());
        w.leak();
        return CaseReport {
            nontrivial: false,
            classes,
            viol: Some(v),
        };
    }
    let mut snaps: Vec<CrashSnap> = vec![initial];
    if A::SYNC {
        live_log = std::mem::take(&mut w.live_log);
        if let Some(sh) = &w.crash {
            snaps.extend(sh.snaps.borrow_mut().drain(..));
        }
    } else {
        snaps.extend(boundary);
    }
    classes.extend(w.classes.iter().copied());
    let hist_classes = w.classes.clone();
    match w.teardown() {
        Ok(_) => {}
        Err(v) => {
            return CaseReport {
                nontrivial: false,
                classes,
                viol: Some(v),
            }
        }
    }
    // 2. choose the crash points to evaluate
    let total = snaps.len();
    bump("crash_points_enumerated", total as u64);
    let limit = if case.all { usize::MAX } else { 32 };
    let mut chosen: Vec<usize> = (0..total).collect();
    if total > limit {
        // always every step of one op that touches the free list, then a hash-ordered sample
        let interesting: Vec<usize> = (0..live_log.len())
            .filter(|k| {
                let d = &live_log[*k].2;
                let steps = snaps
                    .iter()
                    .filter(|s| s.op == *k && s.step != u32::MAX)
                    .count();
                ((d.starts_with("Drop")
                    || d.starts_with("Dealloc")
                    || d.starts_with("Discard")
                    || d.starts_with("Alloc")
                    || d.starts_with("Fill"))
                    && steps >= 4)
                    || ((d.starts_with("Clear") || d.starts_with("Rewind")) && steps >= 2)
            })
            .collect();
        let mut must: Vec<usize> = Vec::new();
        if !interesting.is_empty() {
            let k = interesting[(case.pick as usize) % interesting.len()];
            must = (0..total).filter(|i| snaps[*i].op == k).collect();
            must.truncate(limit);
        }
        let mut rest: Vec<usize> = (0..total).filter(|i| !must.contains(i)).collect();
        rest.sort_by_key(|i| {
            splitmix(case.pick as u64 ^ (*i as u64).wrapping_mul(0x9E3779B97F4A7C15))
        });
        rest.truncate(limit.saturating_sub(must.len()));
        chosen = must;
        chosen.extend(rest);
        chosen.sort();
    }
    // 3. recover from each chosen crash point
    let known: Vec<String> = open_sigs("C06").into_iter().map(|f| f.signature).collect();
    let mut inside_freelist_op = false;
    for i in chosen {
        let s = &snaps[i];
        let (live, desc): (Vec<LiveRec>, String) = if i == 0 {
            (vec![], "start".into())
        } else {
            let (b, a, d) = &live_log[s.op];
            if s.step == u32::MAX {
                (a.clone(), d.clone())
            } else {
                (
                    b.iter()
                        .filter(|x| a.iter().any(|y| y.id == x.id))
                        .cloned()
                        .collect(),
                    d.clone(),
                )
            }
        };
        bump("crash_points_evaluated", 1);
        if s.step != u32::MAX && i != 0 {
            bump("crash_points_inside_an_operation", 1);
            if s.what == "Cas" || s.what == "Store" || s.what == "MemWrite" {
                inside_freelist_op = true;
            }
        }
        match recover::<A>(&cfg, s, &live, &case.post, &desc) {
            Ok(c) => {
                if c.contains("marked-node-in-snapshot") {
                    classes.insert("marked-node-in-snapshot");
                }
            }
            Err(v) => {
                if v.prop == "C06" && known.iter().any(|k| *k == v.sig) {
                    bump(&format!("known:{}", v.sig), 1);
                    classes.insert("known-finding-hit");
                    continue;
                }
                return CaseReport {
                    nontrivial: false,
                    classes,
                    viol: Some(v),
                };
            }
        }
    }
    let _ = fnv;
    let nontrivial = inside_freelist_op
        && (hist_classes.contains("slow-path")
            || hist_classes.contains("release-segment")
            || hist_classes.contains("discard-nonempty"));
    CaseReport {
        nontrivial,
        classes,
        viol: None,
    }
}

impl Prop for C06 {
    type Case = CaseC06;
    const ID: &'static str = "C06";
    const LEVEL: &'static str = "fault_enumeration";
    const SHRINK_ITERS: u32 = 400;
    fn strategy(tier: Tier) -> BoxedStrategy<CaseC06> {
        let mut p = Profile::base();
        p.backends = &[(8, Backend::Vec), (1, Backend::Anon), (2, Backend::File)];
        // unsync only (the interpreter skips it elsewhere): a resize is an operation of a writable arena as well
        p.w_truncate = 3;
        p.caps = SMALL_CAPS;
        p.max_ops = if tier == Tier::Thorough { 40 } else { 18 };
        p.prelude_pct = 70;
        p.w_fill = 10;
        p.w_drop = 40;
        p.w_dealloc = 6;
        p.w_detach = 6;
        p.w_discard = 3;
        p.w_minseg = 2;
        p.w_clone = 1;
        // "any operation": clear, rewind and increase_discarded are operations of a writable arena too (their
        // contracts - no live handle above the new cursor - are kept by the interpreter, and a range released by the
        // interrupted operation is exempt from the live-bytes clause anyway)
        p.w_clear = 2;
        p.w_rewind = 2;
        p.w_incdisc = 2;
        p.owned_pct = 15;
        p.flavors = &[Fl::Sync, Fl::Sync, Fl::Sync, Fl::Unsync];
        let mut pp = Profile::base();
        pp.prelude_pct = 0;
        pp.w_fill = 20;
        pp.w_drop = 40;
        pp.w_discard = 6;
        pp.w_typed = 10;
        pp.w_aligned = 5;
        pp.owned_pct = 0;
        let npost = if tier == Tier::Thorough { 16 } else { 8 };
        let all = tier == Tier::Thorough;
        (
            case_strategy(&p),
            prop::collection::vec(op_strategy(&pp), 1..=npost),
            any::<u32>(),
        )
            .prop_map(move |(c, post, pick)| CaseC06 {
                cfg: c.cfg,
                ops: c.ops,
                post,
                pick,
                all,
            })
            .boxed()
    }
    fn run(case: &CaseC06) -> CaseReport {
        crate::enga::set_owner(Some("C06"));
        let mut r = match case.cfg.flavor {
            Fl::Sync => run_c06::<sync::Arena>(case),
            Fl::Unsync => run_c06::<unsync::Arena>(case),
        };
        let f = crate::enga::take_foreign();
        crate::enga::set_owner(None);
        if r.viol.is_none() {
            r.viol = f;
        }
        r
    }
    fn cases(tier: Tier) -> u64 {
        scale(tier, 60_000, 400_000)
    }
    fn rule() -> &'static str {
        "a generated history (C05-style incl. clear, rewind and increase_discarded, unified layout; Vec backend for speed, anon and file backends to confirm equivalence) is run once while the verif hook copies memory() before every atomic access / arena zeroing of every operation (sync) or at every operation boundary (unsync); each copy is byte for byte what a MAP_SHARED file would hold if the process were killed there. quick: <= 32 crash points per history (always every step of one free-list-touching operation, the rest hash-sampled by a generated value), thorough: all. For each: write the copy to a fresh file, map_mut with the original options: must open, data_offset <= allocated <= capacity, every range returned before the crash and not released before it (the handle released / allocated by the interrupted operation is exempt) holds its bytes and lies below the cursor; then a generated post-crash history (fill, free, refill, discard_freelist) runs on the reopened arena with those ranges in the shadow map (C01 disjointness = never handed out again) with a termination budget per operation (2000 consecutive atomic accesses that change nothing: a single thread re-reading unchanged words can never leave its loop). Non-trivial = a crash point strictly inside an operation, in a history that used the free list. evaluations counts histories; counters.crash_points_evaluated counts recoveries"
    }
    fn assumptions() -> Vec<&'static str> {
        vec![
            "a crash is modelled as 'the page cache at that instant' (the statement's wording); torn or reordered write-back after power loss is not modelled",
            "crash points are the before-events of the crate's atomic accesses and of Meta::clear; harness writes into handed-out ranges happen between operations",
            "Vec+unify memory() is byte-identical to a file mapping of the same history (checked by C16)",
        ]
    }
    fn simplify(c: &CaseC06) -> Vec<CaseC06> {
        let mut out: Vec<CaseC06> = simplify_case_a(&CaseA {
            cfg: c.cfg.clone(),
            ops: c.ops.clone(),
        })
        .into_iter()
        .map(|x| CaseC06 {
            ops: x.ops,
            ..c.clone()
        })
        .collect();
        out.extend(
            simplify_case_a(&CaseA {
                cfg: c.cfg.clone(),
                ops: c.post.clone(),
            })
            .into_iter()
            .map(|x| CaseC06 {
                post: x.ops,
                ..c.clone()
            }),
        );
        out
    }
}
