//! C14 - buffer writers / readers stay in bounds and round-trip.

use super::*;
use crate::enga::{guard, viol, Viol};
use crate::flavor::Flavor;
use crate::types::{dispatch, pat, Ty, TyMeta, Visitor, TYPES};
use proptest::prelude::*;
use rarena_allocator::{sync, unsync, Allocator, Buffer, BytesMut, BytesRefMut, Options};
use serde::{Deserialize, Serialize};
use std::collections::BTreeSet;

#[derive(Clone, Copy, Debug, PartialEq, Eq, Serialize, Deserialize)]
pub enum IntTy {
    U8,
    I8,
    U16,
    U32,
    U64,
    Usize,
    U128,
    I16,
    I32,
    I64,
    Isize,
    I128,
}
impl IntTy {
    fn width(self) -> usize {
        match self {
            IntTy::U8 | IntTy::I8 => 1,
            IntTy::U16 | IntTy::I16 => 2,
            IntTy::U32 | IntTy::I32 => 4,
            IntTy::U64 | IntTy::I64 | IntTy::Usize | IntTy::Isize => 8,
            IntTy::U128 | IntTy::I128 => 16,
        }
    }
    fn all() -> Vec<IntTy> {
        use IntTy::*;
        vec![
            U8, I8, U16, U32, U64, Usize, U128, I16, I32, I64, Isize, I128,
        ]
    }
}

#[derive(Clone, Copy, Debug, PartialEq, Eq, Serialize, Deserialize)]
pub enum VarTy {
    U16,
    U32,
    U64,
    U128,
    I16,
    I32,
    I64,
    I128,
}
impl VarTy {
    fn bits(self) -> u32 {
        match self {
            VarTy::U16 | VarTy::I16 => 16,
            VarTy::U32 | VarTy::I32 => 32,
            VarTy::U64 | VarTy::I64 => 64,
            VarTy::U128 | VarTy::I128 => 128,
        }
    }
    fn all() -> Vec<VarTy> {
        use VarTy::*;
        vec![U16, U32, U64, U128, I16, I32, I64, I128]
    }
}

fn mask(raw: u128, bytes: usize) -> u128 {
    if bytes >= 16 {
        raw
    } else {
        raw & ((1u128 << (bytes * 8)) - 1)
    }
}

/// reference encoder: the low `w` bytes of raw in byte order `o` (0 be, 1 le, 2 ne)
fn ref_bytes(raw: u128, w: usize, o: u8) -> Vec<u8> {
    let le = raw.to_le_bytes()[..w].to_vec();
    let big = match o {
        0 => true,
        1 => false,
        _ => cfg!(target_endian = "big"),
    };
    if big {
        le.into_iter().rev().collect()
    } else {
        le
    }
}

pub trait Buf {
    fn b_len(&self) -> usize;
    /// `fits`: the caller knows that the value fits / is available, so the `_unchecked` variants are inside their contract
    fn put_int(
        &mut self,
        t: IntTy,
        o: u8,
        raw: u128,
        write: bool,
        fits: bool,
    ) -> Result<(), String>;
    fn get_int(&mut self, t: IntTy, o: u8, avail: bool) -> Result<u128, String>;
    fn get_slice_(
        &mut self,
        size: usize,
        mutable: bool,
        unchecked: bool,
    ) -> Result<(usize, usize), String>;
    fn put_var(&mut self, t: VarTy, raw: u128, write: bool) -> Result<usize, String>;
    fn get_var(&self, t: VarTy) -> Result<(usize, u128), String>;
    fn put_slice_(&mut self, s: &[u8], write: bool, unchecked: bool) -> Result<(), String>;
    fn set_len_(&mut self, l: usize);
    fn align_to_<T>(&mut self) -> Result<usize, String>;
    fn put_<T: Ty>(&mut self, v: T) -> Result<usize, String>;
    fn put_aligned_<T: Ty>(&mut self, v: T) -> Result<usize, String>;
    fn base_ptr(&mut self) -> usize;
}

macro_rules! impl_buf {
    ($t:ty, $len:expr) => {
        impl<A: Flavor> Buf for $t {
            fn b_len(&self) -> usize {
                let f: fn(&Self) -> usize = $len;
                f(self)
            }
            fn base_ptr(&mut self) -> usize {
                self.as_mut_ptr() as usize
            }
            fn put_int(&mut self, t: IntTy, o: u8, raw: u128, write: bool, fits: bool) -> Result<(), String> {
                macro_rules! arm {
                    ($ty:ty, $pbe:ident, $ple:ident, $pne:ident, $wbe:ident, $wle:ident, $wne:ident) => {{
                        let v = raw as $ty;
                        if write {
                            match o {
                                0 => self.$wbe(v),
                                1 => self.$wle(v),
                                _ => self.$wne(v),
                            }
                            .map_err(|e| format!("{e:?}/{:?}", e.kind()))
                        } else {
                            match o {
                                0 => self.$pbe(v),
                                1 => self.$ple(v),
                                _ => self.$pne(v),
                            }
                            .map_err(|e| format!("{e:?}"))
                        }
                    }};
                }
                match t {
                    // the one-byte puts have no io::Write twin; `write` selects the unchecked variant when the byte fits
                    IntTy::U8 if write && fits => {
                        unsafe { self.put_u8_unchecked(raw as u8) };
                        Ok(())
                    }
                    IntTy::I8 if write && fits => {
                        unsafe { self.put_i8_unchecked(raw as i8) };
                        Ok(())
                    }
                    IntTy::U8 => self.put_u8(raw as u8).map_err(|e| format!("{e:?}")),
                    IntTy::I8 => self.put_i8(raw as i8).map_err(|e| format!("{e:?}")),
                    IntTy::U16 => arm!(u16, put_u16_be, put_u16_le, put_u16_ne, write_u16_be, write_u16_le, write_u16_ne),
                    IntTy::U32 => arm!(u32, put_u32_be, put_u32_le, put_u32_ne, write_u32_be, write_u32_le, write_u32_ne),
                    IntTy::U64 => arm!(u64, put_u64_be, put_u64_le, put_u64_ne, write_u64_be, write_u64_le, write_u64_ne),
                    IntTy::Usize => arm!(usize, put_usize_be, put_usize_le, put_usize_ne, write_usize_be, write_usize_le, write_usize_ne),
                    IntTy::U128 => arm!(u128, put_u128_be, put_u128_le, put_u128_ne, write_u128_be, write_u128_le, write_u128_ne),
                    IntTy::I16 => arm!(i16, put_i16_be, put_i16_le, put_i16_ne, write_i16_be, write_i16_le, write_i16_ne),
                    IntTy::I32 => arm!(i32, put_i32_be, put_i32_le, put_i32_ne, write_i32_be, write_i32_le, write_i32_ne),
                    IntTy::I64 => arm!(i64, put_i64_be, put_i64_le, put_i64_ne, write_i64_be, write_i64_le, write_i64_ne),
                    IntTy::Isize => arm!(isize, put_isize_be, put_isize_le, put_isize_ne, write_isize_be, write_isize_le, write_isize_ne),
                    IntTy::I128 => arm!(i128, put_i128_be, put_i128_le, put_i128_ne, write_i128_be, write_i128_le, write_i128_ne),
                }
            }
            fn get_int(&mut self, t: IntTy, o: u8, avail: bool) -> Result<u128, String> {
                macro_rules! arm {
                    ($be:ident, $le:ident, $ne:ident) => {
                        match o {
                            0 => self.$be(),
                            1 => self.$le(),
                            _ => self.$ne(),
                        }
                        .map(|v| v as u128)
                        .map_err(|e| format!("{e:?}"))
                    };
                }
                match t {
                    // one byte has no byte order: order 1 selects the unchecked variant when a byte is there
                    IntTy::U8 if o == 1 && avail => Ok(unsafe { self.get_u8_unchecked() } as u128),
                    IntTy::I8 if o == 1 && avail => Ok(unsafe { self.get_i8_unchecked() } as u128),
                    IntTy::U8 => self.get_u8().map(|v| v as u128).map_err(|e| format!("{e:?}")),
                    IntTy::I8 => self.get_i8().map(|v| v as u128).map_err(|e| format!("{e:?}")),
                    IntTy::U16 => arm!(get_u16_be, get_u16_le, get_u16_ne),
                    IntTy::U32 => arm!(get_u32_be, get_u32_le, get_u32_ne),
                    IntTy::U64 => arm!(get_u64_be, get_u64_le, get_u64_ne),
                    IntTy::Usize => arm!(get_usize_be, get_usize_le, get_usize_ne),
                    IntTy::U128 => arm!(get_u128_be, get_u128_le, get_u128_ne),
                    IntTy::I16 => arm!(get_i16_be, get_i16_le, get_i16_ne),
                    IntTy::I32 => arm!(get_i32_be, get_i32_le, get_i32_ne),
                    IntTy::I64 => arm!(get_i64_be, get_i64_le, get_i64_ne),
                    IntTy::Isize => arm!(get_isize_be, get_isize_le, get_isize_ne),
                    IntTy::I128 => arm!(get_i128_be, get_i128_le, get_i128_ne),
                }
            }
            fn put_var(&mut self, t: VarTy, raw: u128, write: bool) -> Result<usize, String> {
                macro_rules! arm {
                    ($ty:ty, $p:ident, $w:ident) => {
                        if write {
                            self.$w(raw as $ty).map_err(|e| format!("{e:?}"))
                        } else {
                            self.$p(raw as $ty).map_err(|e| format!("{e:?}"))
                        }
                    };
                }
                match t {
                    VarTy::U16 => arm!(u16, put_u16_varint, write_u16_varint),
                    VarTy::U32 => arm!(u32, put_u32_varint, write_u32_varint),
                    VarTy::U64 => arm!(u64, put_u64_varint, write_u64_varint),
                    VarTy::U128 => arm!(u128, put_u128_varint, write_u128_varint),
                    VarTy::I16 => arm!(i16, put_i16_varint, write_i16_varint),
                    VarTy::I32 => arm!(i32, put_i32_varint, write_i32_varint),
                    VarTy::I64 => arm!(i64, put_i64_varint, write_i64_varint),
                    VarTy::I128 => arm!(i128, put_i128_varint, write_i128_varint),
                }
            }
            fn get_var(&self, t: VarTy) -> Result<(usize, u128), String> {
                macro_rules! arm {
                    ($g:ident) => {
                        self.$g().map(|(n, v)| (n, v as u128)).map_err(|e| format!("{e:?}"))
                    };
                }
                match t {
                    VarTy::U16 => arm!(get_u16_varint),
                    VarTy::U32 => arm!(get_u32_varint),
                    VarTy::U64 => arm!(get_u64_varint),
                    VarTy::U128 => arm!(get_u128_varint),
                    VarTy::I16 => arm!(get_i16_varint),
                    VarTy::I32 => arm!(get_i32_varint),
                    VarTy::I64 => arm!(get_i64_varint),
                    VarTy::I128 => arm!(get_i128_varint),
                }
            }
            fn get_slice_(&mut self, size: usize, mutable: bool, unchecked: bool) -> Result<(usize, usize), String> {
                match (mutable, unchecked) {
                    (false, false) => self.get_slice(size).map(|s| (s.as_ptr() as usize, s.len())).map_err(|e| format!("{e:?}")),
                    (true, false) => self.get_slice_mut(size).map(|s| (s.as_ptr() as usize, s.len())).map_err(|e| format!("{e:?}")),
                    (false, true) => Ok(unsafe { self.get_slice_unchecked(size) }).map(|s| (s.as_ptr() as usize, s.len())),
                    (true, true) => Ok(unsafe { self.get_slice_mut_unchecked(size) }).map(|s| (s.as_ptr() as usize, s.len())),
                }
            }
            fn put_slice_(&mut self, s: &[u8], write: bool, unchecked: bool) -> Result<(), String> {
                if unchecked {
                    unsafe { self.put_slice_unchecked(s) };
                    Ok(())
                } else if write {
                    use std::io::Write;
                    self.write(s).map(|_| ()).map_err(|e| format!("{e:?}"))
                } else {
                    self.put_slice(s).map_err(|e| format!("{e:?}"))
                }
            }
            fn set_len_(&mut self, l: usize) {
                self.set_len(l)
            }
            fn align_to_<T>(&mut self) -> Result<usize, String> {
                self.align_to::<T>().map(|p| p.as_ptr() as usize).map_err(|e| format!("{e:?}"))
            }
            fn put_<T: Ty>(&mut self, v: T) -> Result<usize, String> {
                unsafe { self.put::<T>(v).map(|r| r as *mut T as usize).map_err(|e| format!("{e:?}")) }
            }
            fn put_aligned_<T: Ty>(&mut self, v: T) -> Result<usize, String> {
                unsafe { self.put_aligned::<T>(v).map(|r| r as *mut T as usize).map_err(|e| format!("{e:?}")) }
            }
        }
    };
}
impl_buf!(BytesRefMut<'static, A>, |s| s.len());
impl_buf!(BytesMut<A>, |s| (**s).len());

/// a u128 carried as (hi, lo) because serde_json values cannot hold 128-bit numbers
#[derive(Clone, Copy, Debug, Serialize, Deserialize)]
pub struct Raw(pub u64, pub u64);
impl Raw {
    fn v(self) -> u128 {
        ((self.0 as u128) << 64) | self.1 as u128
    }
}

#[derive(Clone, Debug, Serialize, Deserialize)]
pub enum Call {
    PutInt {
        t: IntTy,
        o: u8,
        raw: Raw,
        write: bool,
    },
    GetInt {
        t: IntTy,
        o: u8,
    },
    RoundTrip {
        t: IntTy,
        o: u8,
        raw: Raw,
    },
    PutVar {
        t: VarTy,
        raw: Raw,
        write: bool,
    },
    GetVar {
        t: VarTy,
    },
    PutSlice {
        len: u16,
        write: bool,
        /// put_slice_unchecked, honoured only when the slice fits (its contract)
        #[serde(default)]
        unchecked: bool,
    },
    /// put_slice / write of a slice of 2^32 + k bytes ("all slice lengths"): can never fit, must be refused cleanly
    PutHugeSlice { k: u16, write: bool },
    /// get_slice / get_slice_mut (and their unchecked variants when `size` bytes are there) over the written prefix
    GetSlice {
        size: u16,
        mutable: bool,
        unchecked: bool,
    },
    SetLen {
        l: u16,
    },
    AlignTo {
        ty: u8,
    },
    Put {
        ty: u8,
    },
    PutAligned {
        ty: u8,
    },
}

#[derive(Clone, Debug, Serialize, Deserialize)]
pub struct CaseC14 {
    pub sync: bool,
    pub freelist: u8,
    pub unify: bool,
    pub reserved: u8,
    /// 0 fresh alloc_bytes, 1 recycled (slow path), 2 alloc_aligned_bytes at an odd cursor, 3 aligned + recycled
    pub prov: u8,
    pub owned: bool,
    pub cap: u16,
    pub aty: u8,
    pub odd: u8,
    pub fill: u16,
    pub calls: Vec<Call>,
    /// maximum alignment of the arena: 16 << (malign % 3)
    #[serde(default)]
    pub malign: u8,
    /// unsync only: the arena is resized (truncate; size by this value, monotone over 512..=2048) before anything is
    /// allocated - a buffer is only as aligned as the memory the arena lives in
    #[serde(default)]
    pub trunc: Option<u16>,
}

pub struct C14;

fn vals() -> BoxedStrategy<Raw> {
    vals128()
        .prop_map(|v| Raw((v >> 64) as u64, v as u64))
        .boxed()
}

fn vals128() -> BoxedStrategy<u128> {
    prop_oneof![
        3 => prop::sample::select(vec![0u128, 1, u128::MAX, u128::MAX - 1, 0x80, 0x7f, 0x8000, 0x7fff, 0x8000_0000, 0x7fff_ffff, 1 << 63, (1 << 63) - 1, 1 << 127, (1u128 << 127) - 1,
            0x1234, 0x1234_5678, 0x0123_4567_89ab_cdef, 0xaaaa_aaaa_aaaa_aaaa_aaaa_aaaa_aaaa_aaaa, 0x5555_5555_5555_5555_5555_5555_5555_5555, 127, 128, 16383, 16384]),
        2 => any::<u128>(),
        1 => any::<u64>().prop_map(|v| v as u128),
        1 => any::<u16>().prop_map(|v| v as u128),
        1 => any::<i64>().prop_map(|v| v as i128 as u128),
    ]
    .boxed()
}

fn call_strategy() -> BoxedStrategy<Call> {
    let it = prop::sample::select(IntTy::all());
    let vt = prop::sample::select(VarTy::all());
    let nt = crate::types::ntypes() as u8;
    prop_oneof![
        6 => (it.clone(), 0u8..3, vals(), any::<bool>()).prop_map(|(t, o, raw, write)| Call::PutInt { t, o, raw, write }),
        3 => (it.clone(), 0u8..3).prop_map(|(t, o)| Call::GetInt { t, o }),
        6 => (it, 0u8..3, vals()).prop_map(|(t, o, raw)| Call::RoundTrip { t, o, raw }),
        4 => (vt.clone(), vals(), any::<bool>()).prop_map(|(t, raw, write)| Call::PutVar { t, raw, write }),
        2 => vt.prop_map(|t| Call::GetVar { t }),
        3 => (0u16..100, any::<bool>(), prop::bool::weighted(0.3)).prop_map(|(len, write, unchecked)| Call::PutSlice { len, write, unchecked }),
        1 => (prop_oneof![2 => Just(0u16), 2 => 0u16..100, 1 => any::<u16>()], any::<bool>()).prop_map(|(k, write)| Call::PutHugeSlice { k, write }),
        2 => (any::<u16>(), any::<bool>(), prop::bool::weighted(0.3)).prop_map(|(size, mutable, unchecked)| Call::GetSlice { size, mutable, unchecked }),
        3 => any::<u16>().prop_map(|l| Call::SetLen { l }),
        4 => (0..nt + 2).prop_map(|ty| Call::AlignTo { ty }),
        3 => (0..nt + 2).prop_map(|ty| Call::Put { ty }),
        4 => (0..nt + 2).prop_map(|ty| Call::PutAligned { ty }),
    ]
    .boxed()
}

struct AlignV<'a, B: Buf> {
    b: &'a mut B,
    mode: u8,
    id: u32,
}
impl<B: Buf> Visitor for AlignV<'_, B> {
    type Out = (Result<usize, String>, usize, usize);
    fn visit<T: Ty>(self, m: &TyMeta) -> Self::Out {
        let r = match self.mode {
            0 => self.b.align_to_::<T>(),
            1 => self.b.put_::<T>(T::make(self.id)),
            _ => self.b.put_aligned_::<T>(T::make(self.id)),
        };
        (r, m.size, m.align)
    }
}

const CANARY: u32 = 0xC0FFEE;

// over-aligned types for the buffer calls only ("all T alignments"): in contract when the arena was created with a
// maximum alignment at least as large; they follow the shared type table as virtual indices
macro_rules! big {
    ($name:ident, $a:literal, $s:literal) => {
        #[repr(C, align($a))]
        #[derive(Clone, Copy)]
        pub struct $name(pub [u8; $s]);
        impl Ty for $name {
            const NEEDS_DROP: bool = false;
            fn make(id: u32) -> Self {
                let mut b = [0u8; $s];
                for (i, x) in b.iter_mut().enumerate() {
                    *x = pat(id, i);
                }
                $name(b)
            }
        }
    };
}
big!(A32S32, 32, 32);
big!(A64S64, 64, 64);
const BIG: [TyMeta; 2] = [
    TyMeta { name: "A32S32", size: 32, align: 32, needs_drop: false },
    TyMeta { name: "A64S64", size: 64, align: 64, needs_drop: false },
];
fn ty_meta(ix: usize) -> TyMeta {
    if ix < TYPES.len() {
        TYPES[ix]
    } else {
        BIG[ix - TYPES.len()]
    }
}
fn dispatch_c14<V: Visitor>(ix: usize, v: V) -> V::Out {
    if ix < TYPES.len() {
        dispatch(ix, v)
    } else if ix == TYPES.len() {
        v.visit::<A32S32>(&BIG[0])
    } else {
        v.visit::<A64S64>(&BIG[1])
    }
}

struct Ctx {
    off: usize,
    cap: usize,
    len: usize,
    base: usize,
    max_align: usize,
    classes: BTreeSet<&'static str>,
}

fn run_calls<A: Flavor, B: Buf>(
    arena: &'static A,
    b: &mut B,
    cx: &mut Ctx,
    calls: &[Call],
) -> Result<(), Viol> {
    let mem = |a: &'static A| -> Vec<u8> { a.memory().to_vec() };
    let (off, cap) = (cx.off, cx.cap);
    for (ci, call) in calls.iter().enumerate() {
        let before = mem(arena);
        let len0 = b.b_len();
        if len0 != cx.len {
            return Err(viol!(
                "C14",
                "len-model",
                "call {ci}: len() is {len0}, model says {}",
                cx.len
            ));
        }
        let outside_same = |after: &[u8]| -> Option<usize> {
            (0..after.len()).find(|&i| (i < off || i >= off + cap) && after[i] != before[i])
        };
        let near = |w: usize| len0 + w + 16 >= cap;
        macro_rules! check_outside {
            ($what:expr, $after:expr) => {
                if let Some(i) = outside_same(&$after) {
                    return Err(viol!("C14", format!("{}-out-of-bounds", $what), "call {ci} {:?}: byte {i} outside the buffer [{off}, {}) changed {:#x} -> {:#x} (len {len0})", call, off + cap, before[i], $after[i]));
                }
            };
        }
        match call {
            Call::PutInt { t, o, raw, write } => {
                let raw = &raw.v();
                let w = t.width();
                let fits = len0 + w <= cap;
                if w == 1 && *write && fits {
                    cx.classes.insert("unchecked-variant");
                }
                let r = guard("put_int", "C14", || b.put_int(*t, *o, *raw, *write, fits))?;
                let after = mem(arena);
                check_outside!("put", after);
                if near(w) {
                    cx.classes.insert("near-capacity");
                }
                match r {
                    Ok(()) => {
                        if len0 + w > cap {
                            return Err(viol!("C14", "put-accepted-overflow", "call {ci} {call:?}: accepted with len {len0} + {w} > capacity {cap}"));
                        }
                        let want = ref_bytes(*raw, w, *o);
                        if after[off + len0..off + len0 + w] != want[..] {
                            return Err(viol!(
                                "C14",
                                "put-bytes",
                                "call {ci} {call:?}: stored {:x?}, expected {:x?}",
                                &after[off + len0..off + len0 + w],
                                want
                            ));
                        }
                        if (0..cap).any(|i| {
                            (i < len0 || i >= len0 + w) && after[off + i] != before[off + i]
                        }) {
                            return Err(viol!("C14", "put-touched-other", "call {ci} {call:?}: bytes of the buffer outside [len, len+{w}) changed"));
                        }
                        cx.len += w;
                        if b.b_len() != cx.len {
                            return Err(viol!(
                                "C14",
                                "put-len",
                                "call {ci} {call:?}: len {len0} -> {} expected {}",
                                b.b_len(),
                                cx.len
                            ));
                        }
                    }
                    Err(e) => {
                        if len0 + w <= cap {
                            return Err(viol!("C14", "put-refused", "call {ci} {call:?}: refused ({e}) with len {len0} + {w} <= capacity {cap}"));
                        }
                        if *write && w > 1 && !e.contains("WriteZero") {
                            return Err(viol!(
                                "C14",
                                "write-error-kind",
                                "call {ci} {call:?}: error {e}"
                            ));
                        }
                        if after != before || b.b_len() != len0 {
                            return Err(viol!("C14", "failed-put-effect", "call {ci} {call:?}: failed ({e}) but changed bytes or len ({len0} -> {})", b.b_len()));
                        }
                        cx.classes.insert("put-refused");
                    }
                }
            }
            Call::GetInt { t, o } => {
                let w = t.width();
                let r = guard("get_int", "C14", || b.get_int(*t, *o, len0 >= w))?;
                let after = mem(arena);
                if after != before {
                    return Err(viol!(
                        "C14",
                        "get-wrote",
                        "call {ci} {call:?}: a get changed memory"
                    ));
                }
                match r {
                    Ok(v) => {
                        if len0 < w {
                            return Err(viol!(
                                "C14",
                                "get-accepted-short",
                                "call {ci} {call:?}: returned a value with len {len0} < {w}"
                            ));
                        }
                        let want = &before[off + len0 - w..off + len0];
                        if ref_bytes(mask(v, w), w, *o) != want {
                            return Err(viol!(
                                "C14",
                                "get-value",
                                "call {ci} {call:?}: returned {:#x} from bytes {:x?}",
                                mask(v, w),
                                want
                            ));
                        }
                        cx.len -= w;
                    }
                    Err(e) => {
                        if len0 >= w {
                            return Err(viol!(
                                "C14",
                                "get-refused",
                                "call {ci} {call:?}: refused ({e}) with len {len0} >= {w}"
                            ));
                        }
                    }
                }
                if b.b_len() != cx.len {
                    return Err(viol!(
                        "C14",
                        "get-len",
                        "call {ci} {call:?}: len {len0} -> {} expected {}",
                        b.b_len(),
                        cx.len
                    ));
                }
            }
            Call::RoundTrip { t, o, raw } => {
                let raw = &raw.v();
                let w = t.width();
                if len0 + w > cap {
                    continue;
                }
                guard("put_int", "C14", || b.put_int(*t, *o, *raw, false, true))?.map_err(|e| {
                    viol!(
                        "C14",
                        "put-refused",
                        "call {ci} {call:?}: refused ({e}) with len {len0} + {w} <= capacity {cap}"
                    )
                })?;
                let mid = mem(arena);
                check_outside!("put", mid);
                let v = guard("get_int", "C14", || b.get_int(*t, *o, true))?.map_err(|e| {
                    viol!(
                        "C14",
                        "get-refused",
                        "call {ci} {call:?}: get after put refused: {e}"
                    )
                })?;
                if mask(v, w) != mask(*raw, w) {
                    return Err(viol!("C14", "roundtrip-value", "call {ci} {call:?}: put {:#x}, get of the same type and byte order returned {:#x}", mask(*raw, w), mask(v, w)));
                }
                if b.b_len() != len0 {
                    return Err(viol!(
                        "C14",
                        "roundtrip-len",
                        "call {ci} {call:?}: len {len0} -> {} after put+get",
                        b.b_len()
                    ));
                }
                if near(w) {
                    cx.classes.insert("near-capacity");
                }
                cx.classes.insert("roundtrip");
            }
            Call::PutVar { t, raw, write } => {
                let raw = &raw.v();
                let r = guard("put_varint", "C14", || b.put_var(*t, *raw, *write))?;
                let after = mem(arena);
                check_outside!("put-varint", after);
                match r {
                    Ok(n) => {
                        if len0 + n > cap || n == 0 {
                            return Err(viol!("C14", "varint-accepted-overflow", "call {ci} {call:?}: wrote {n} bytes with len {len0}, capacity {cap}"));
                        }
                        if (0..cap).any(|i| {
                            (i < len0 || i >= len0 + n) && after[off + i] != before[off + i]
                        }) {
                            return Err(viol!("C14", "put-touched-other", "call {ci} {call:?}: bytes of the buffer outside [len, len+{n}) changed"));
                        }
                        cx.len += n;
                        if b.b_len() != cx.len {
                            return Err(viol!(
                                "C14",
                                "put-len",
                                "call {ci} {call:?}: len {len0} -> {} expected {}",
                                b.b_len(),
                                cx.len
                            ));
                        }
                        if len0 == 0 {
                            // LEB128 put on an empty buffer followed by the matching get
                            let g = guard("get_varint", "C14", || b.get_var(*t))?.map_err(|e| viol!("C14", "varint-roundtrip", "call {ci} {call:?}: get after put on an empty buffer failed: {e}"))?;
                            let bytes = (t.bits() / 8) as usize;
                            if g.0 != n || mask(g.1, bytes) != mask(*raw, bytes) {
                                return Err(viol!("C14", "varint-roundtrip", "call {ci} {call:?}: put wrote {n} bytes of {:#x}; get returned ({}, {:#x})", mask(*raw, bytes), g.0, mask(g.1, bytes)));
                            }
                            cx.classes.insert("varint-roundtrip");
                        }
                        if len0 + n + 4 >= cap {
                            cx.classes.insert("near-capacity");
                        }
                    }
                    Err(_e) => {
                        if b.b_len() != len0 {
                            return Err(viol!(
                                "C14",
                                "failed-put-effect",
                                "call {ci} {call:?}: failed but len {len0} -> {}",
                                b.b_len()
                            ));
                        }
                        if cap - len0 >= 19 {
                            return Err(viol!(
                                "C14",
                                "put-refused",
                                "call {ci} {call:?}: varint refused with {} bytes of room",
                                cap - len0
                            ));
                        }
                        cx.classes.insert("put-refused");
                        cx.classes.insert("near-capacity");
                    }
                }
            }
            Call::GetVar { t } => {
                let _ = guard("get_varint", "C14", || b.get_var(*t))?;
                let after = mem(arena);
                if after != before || b.b_len() != len0 {
                    return Err(viol!(
                        "C14",
                        "get-wrote",
                        "call {ci} {call:?}: a varint get changed memory or len"
                    ));
                }
            }
            Call::PutHugeSlice { k, write } => {
                // one untouched (calloc'ed, never faulted in) block per process
                static HUGE: std::sync::OnceLock<Vec<u8>> = std::sync::OnceLock::new();
                let huge = HUGE.get_or_init(|| vec![0u8; (1usize << 32) + (1 << 16)]);
                let n = (1usize << 32) + *k as usize;
                let r = guard("put_slice (2^32 + k bytes)", "C14", || b.put_slice_(&huge[..n], *write, false))?;
                let after = mem(arena);
                check_outside!("put-slice", after);
                cx.classes.insert("slice-of-4GiB-or-more");
                match r {
                    Ok(()) => {
                        return Err(viol!("C14", "put-accepted-overflow", "call {ci} {call:?}: a slice of {n} bytes accepted with len {len0}, capacity {cap}"));
                    }
                    Err(_) => {
                        if after != before || b.b_len() != len0 {
                            return Err(viol!("C14", "failed-put-effect", "call {ci} {call:?}: failed but changed bytes or len"));
                        }
                        cx.classes.insert("put-refused");
                    }
                }
            }
            Call::GetSlice {
                size,
                mutable,
                unchecked,
            } => {
                // monotone map onto 0..=cap+2
                let n = ((*size as usize) * (cap + 3)) >> 16;
                let unchecked = *unchecked && n <= len0;
                let r = guard("get_slice", "C14", || b.get_slice_(n, *mutable, unchecked))?;
                let after = mem(arena);
                if after != before || b.b_len() != len0 {
                    return Err(viol!(
                        "C14",
                        "get-wrote",
                        "call {ci} {call:?}: get_slice({n}) changed memory or len ({len0} -> {})",
                        b.b_len()
                    ));
                }
                match r {
                    Ok((ptr, l)) => {
                        if n > len0 {
                            return Err(viol!("C14", "get-accepted-short", "call {ci} {call:?}: get_slice({n}) returned a slice with len {len0} < {n}"));
                        }
                        if l != n || (n > 0 && ptr != cx.base) {
                            return Err(viol!("C14", "get-slice-range", "call {ci} {call:?}: get_slice({n}) returned {l} bytes at buffer-relative {} (len {len0})", ptr.wrapping_sub(cx.base) as isize));
                        }
                        cx.classes.insert("get-slice");
                        if unchecked {
                            cx.classes.insert("unchecked-variant");
                        }
                    }
                    Err(e) => {
                        if n <= len0 {
                            return Err(viol!(
                                "C14",
                                "get-refused",
                                "call {ci} {call:?}: get_slice({n}) refused ({e}) with len {len0}"
                            ));
                        }
                    }
                }
            }
            Call::PutSlice {
                len,
                write,
                unchecked,
            } => {
                let n = *len as usize;
                let data: Vec<u8> = (0..n).map(|i| pat(0x51CE + ci as u32, i)).collect();
                let unchecked = *unchecked && len0 + n <= cap;
                if unchecked {
                    cx.classes.insert("unchecked-variant");
                }
                let r = guard("put_slice", "C14", || {
                    b.put_slice_(&data, *write, unchecked)
                })?;
                let after = mem(arena);
                check_outside!("put-slice", after);
                match r {
                    Ok(()) => {
                        if len0 + n > cap {
                            return Err(viol!("C14", "put-accepted-overflow", "call {ci} {call:?}: accepted with len {len0} + {n} > capacity {cap}"));
                        }
                        if after[off + len0..off + len0 + n] != data[..] {
                            return Err(viol!(
                                "C14",
                                "put-bytes",
                                "call {ci} {call:?}: stored bytes differ from the slice"
                            ));
                        }
                        cx.len += n;
                        if b.b_len() != cx.len {
                            return Err(viol!(
                                "C14",
                                "put-len",
                                "call {ci} {call:?}: len {len0} -> {} expected {}",
                                b.b_len(),
                                cx.len
                            ));
                        }
                    }
                    Err(e) => {
                        if len0 + n <= cap {
                            return Err(viol!("C14", "put-refused", "call {ci} {call:?}: refused ({e}) with len {len0} + {n} <= capacity {cap}"));
                        }
                        if after != before || b.b_len() != len0 {
                            return Err(viol!(
                                "C14",
                                "failed-put-effect",
                                "call {ci} {call:?}: failed but changed bytes or len"
                            ));
                        }
                        cx.classes.insert("put-refused");
                    }
                }
                if len0 + n + 8 >= cap {
                    cx.classes.insert("near-capacity");
                }
            }
            Call::SetLen { l } => {
                // monotone map onto 0..=cap+2
                let l = ((*l as usize) * (cap + 3)) >> 16;
                let r = std::panic::catch_unwind(std::panic::AssertUnwindSafe(|| b.set_len_(l)));
                let after = mem(arena);
                check_outside!("set_len", after);
                match r {
                    Ok(()) => {
                        if l > cap {
                            return Err(viol!(
                                "C14",
                                "set-len-accepted",
                                "call {ci}: set_len({l}) accepted with capacity {cap}"
                            ));
                        }
                        let (lo, hi) = (len0.min(l), len0.max(l));
                        if let Some(i) = (lo..hi).find(|&i| after[off + i] != 0) {
                            return Err(viol!(
                                "C14",
                                "set-len-not-zeroed",
                                "call {ci}: set_len({l}) from {len0}: byte +{i} is {:#x}",
                                after[off + i]
                            ));
                        }
                        if (0..cap)
                            .any(|i| (i < lo || i >= hi) && after[off + i] != before[off + i])
                        {
                            return Err(viol!("C14", "set-len-touched-other", "call {ci}: set_len({l}) from {len0} changed bytes outside [{lo}, {hi})"));
                        }
                        cx.len = l;
                        if b.b_len() != l {
                            return Err(viol!(
                                "C14",
                                "set-len-len",
                                "call {ci}: set_len({l}) left len {}",
                                b.b_len()
                            ));
                        }
                        cx.classes.insert("set-len");
                    }
                    Err(_) => {
                        if l <= cap {
                            return Err(viol!(
                                "C14",
                                "set-len-panicked",
                                "call {ci}: set_len({l}) panicked with capacity {cap}"
                            ));
                        }
                        if after != before || b.b_len() != len0 {
                            return Err(viol!(
                                "C14",
                                "set-len-panic-effect",
                                "call {ci}: set_len({l}) panicked but changed state"
                            ));
                        }
                    }
                }
            }
            Call::AlignTo { ty } | Call::Put { ty } | Call::PutAligned { ty } => {
                let mode = match call {
                    Call::AlignTo { .. } => 0u8,
                    Call::Put { .. } => 1,
                    _ => 2,
                };
                let tix = *ty as usize % (TYPES.len() + BIG.len());
                let t = ty_meta(tix);
                if t.needs_drop || t.align > cx.max_align {
                    continue;
                }
                if t.align > 16 {
                    cx.classes.insert("over-aligned-type");
                }
                if mode == 1 && (cx.base + len0) % t.align != 0 {
                    // `put` requires a prior align_to: calling it misaligned is the caller's bug. (The docs
                    // exempt zero-sized T, but a misaligned ZST write trips rustc's debug-assertion pointer
                    // check; that is outside the listed property, so the harness keeps ZST puts aligned too.)
                    continue;
                }
                let id = 0x7000 + ci as u32;
                let what = ["align_to", "put", "put_aligned"][mode as usize];
                let (r, size, align) = guard(what, "C14", || {
                    dispatch_c14(
                        tix,
                        AlignV {
                            b: &mut *b,
                            mode,
                            id,
                        },
                    )
                })?;
                let after = mem(arena);
                check_outside!(what, after);
                let len1 = b.b_len();
                if len0 + size + align + 8 >= cap {
                    cx.classes.insert("near-capacity");
                }
                match r {
                    Ok(addr) => {
                        if len1 > cap {
                            return Err(viol!(
                                "C14",
                                format!("{what}-len-beyond-capacity"),
                                "call {ci} {call:?}: len {len0} -> {len1} > capacity {cap}"
                            ));
                        }
                        if size == 0 {
                            if len1 != len0 {
                                return Err(viol!(
                                    "C14",
                                    format!("{what}-zst-len"),
                                    "call {ci} {call:?}: zero-sized T moved len {len0} -> {len1}"
                                ));
                            }
                            cx.len = len1;
                            continue;
                        }
                        if addr % align != 0 {
                            return Err(viol!("C14", format!("{what}-misaligned"), "call {ci} {call:?}: pointer {addr:#x} (buffer base {:#x}, offset {off}) not aligned to {align}", cx.base));
                        }
                        let rel = addr.wrapping_sub(cx.base);
                        let end = if mode == 0 { rel } else { rel + size };
                        if addr < cx.base || end > cap {
                            return Err(viol!("C14", format!("{what}-outside-buffer"), "call {ci} {call:?}: pointer at buffer-relative {rel} (value end {end}) outside capacity {cap}"));
                        }
                        if rel < len0 {
                            return Err(viol!(
                                "C14",
                                format!("{what}-moved-back"),
                                "call {ci} {call:?}: pointer at {rel} before len {len0}"
                            ));
                        }
                        let want_len = if mode == 0 { rel } else { rel + size };
                        if len1 != want_len {
                            return Err(viol!("C14", format!("{what}-len"), "call {ci} {call:?}: len {len0} -> {len1}, pointer at {rel}, size {size}"));
                        }
                        if mode > 0 {
                            let want: Vec<u8> = (0..size).map(|i| pat(id, i)).collect();
                            if after[off + rel..off + rel + size] != want[..] {
                                return Err(viol!("C14", format!("{what}-bytes"), "call {ci} {call:?}: value bytes not stored at the returned position"));
                            }
                            if (0..cap).any(|i| {
                                (i < rel || i >= rel + size) && after[off + i] != before[off + i]
                            }) {
                                return Err(viol!("C14", "put-touched-other", "call {ci} {call:?}: bytes of the buffer outside the value changed"));
                            }
                        } else if after != before {
                            return Err(viol!(
                                "C14",
                                "align-to-wrote",
                                "call {ci} {call:?}: align_to changed memory"
                            ));
                        }
                        cx.len = len1;
                        cx.classes.insert("aligned-ok");
                    }
                    Err(e) => {
                        if len1 != len0 {
                            return Err(viol!(
                                "C14",
                                format!("{what}-failed-len"),
                                "call {ci} {call:?}: failed ({e}) but len {len0} -> {len1}"
                            ));
                        }
                        if mode > 0 && after != before {
                            return Err(viol!(
                                "C14",
                                "failed-put-effect",
                                "call {ci} {call:?}: failed ({e}) but changed bytes"
                            ));
                        }
                        if mode == 1 && len0 + size <= cap {
                            return Err(viol!("C14", "put-refused", "call {ci} {call:?}: refused ({e}) with len {len0} + {size} <= capacity {cap}"));
                        }
                        cx.classes.insert("put-refused");
                    }
                }
            }
        }
    }
    Ok(())
}

struct MkAligned<A: Flavor> {
    arena: &'static A,
    n: u32,
    owned: bool,
}
enum EitherBuf<A: Flavor> {
    R(BytesRefMut<'static, A>),
    O(BytesMut<A>),
}
impl<A: Flavor> Visitor for MkAligned<A> {
    type Out = Option<EitherBuf<A>>;
    fn visit<T: Ty>(self, _m: &TyMeta) -> Self::Out {
        if self.owned {
            self.arena
                .alloc_aligned_bytes_owned::<T>(self.n)
                .ok()
                .map(EitherBuf::O)
        } else {
            self.arena
                .alloc_aligned_bytes::<T>(self.n)
                .ok()
                .map(EitherBuf::R)
        }
    }
}

fn run_c14<A: Flavor>(case: &CaseC14) -> CaseReport {
    let mut classes = BTreeSet::new();
    let fl = match case.freelist % 2 {
        0 => rarena_allocator::Freelist::Optimistic,
        _ => rarena_allocator::Freelist::Pessimistic,
    };
    let opts = Options::new()
        .with_capacity(1024)
        .with_unify(case.unify)
        .with_reserved(case.reserved as u32)
        .with_freelist(fl)
        .with_minimum_segment_size(8)
        .with_maximum_alignment(16usize << (case.malign % 3));
    let max_align = 16usize << (case.malign % 3);
    let Ok(mut arena) = opts.alloc::<A>() else {
        return CaseReport {
            nontrivial: false,
            classes,
            viol: None,
        };
    };
    if let Some(t) = case.trunc {
        let n = 512 + ((t as usize * 1537) >> 16);
        match arena.truncate_(n) {
            Some(Ok(())) => {
                classes.insert("resized-arena");
            }
            Some(Err(e)) => {
                return CaseReport {
                    nontrivial: false,
                    classes,
                    viol: Some(viol!("C18", "truncate-failed", "truncate({n}) of an empty Vec arena failed: {e:?}")),
                };
            }
            None => {}
        }
    }
    let arena: &'static A = Box::leak(Box::new(arena));
    let res = (|| -> Result<(), Viol> {
        let cap = case.cap as u32 % 97;
        // neighbours on both sides, filled with a canary
        let canary = |n: u32| -> Option<BytesRefMut<'static, A>> {
            let mut h = arena.alloc_bytes(n).ok()?;
            let p = h.as_mut_ptr();
            for i in 0..n as usize {
                unsafe { p.add(i).write(pat(CANARY, i)) };
            }
            Some(h)
        };
        let mut keep: Vec<BytesRefMut<'static, A>> = Vec::new();
        keep.extend(canary(16 + (case.odd % 16) as u32));
        let recycled = case.prov & 1 == 1;
        let aligned = case.prov & 2 == 2;
        let tix = case.aty as usize % TYPES.len();
        if recycled {
            // build a hole big enough, fence it, exhaust fresh space, then allocate from the hole
            let hole = canary(cap + 64 + TYPES[tix].size as u32 + TYPES[tix].align as u32);
            keep.extend(canary(24));
            let rem = arena.remaining() as u32;
            keep.extend(canary(rem));
            drop(hole);
            classes.insert("recycled-buffer");
        }
        let buf: Option<EitherBuf<A>> = if aligned {
            classes.insert("aligned-buffer");
            dispatch(
                tix,
                MkAligned {
                    arena,
                    n: cap,
                    owned: case.owned,
                },
            )
        } else if case.owned {
            arena.alloc_bytes_owned(cap).ok().map(EitherBuf::O)
        } else {
            arena.alloc_bytes(cap).ok().map(EitherBuf::R)
        };
        let Some(buf) = buf else { return Ok(()) };
        if !recycled {
            keep.extend(canary(24));
        }
        // bytes above the cursor also get a canary so that an overrun of the last buffer is visible
        let al = arena.allocated();
        let total = arena.capacity();
        unsafe {
            let p = arena.raw_mut_ptr();
            for i in al..total {
                p.add(i).write(pat(CANARY + 1, i));
            }
        }
        let r = match buf {
            EitherBuf::R(mut b) => {
                let mut cx = Ctx {
                    off: Buffer::offset(&b),
                    cap: Buffer::capacity(&b),
                    len: 0,
                    base: 0,
                    max_align,
                    classes: BTreeSet::new(),
                };
                if Buffer::offset(&b) != Buffer::buffer_offset(&b) {
                    cx.classes.insert("offset-ne-buffer-offset");
                }
                cx.base = b.base_ptr();
                let pre = vec![Call::SetLen { l: case.fill }];
                let r = run_calls(arena, &mut b, &mut cx, &pre)
                    .and_then(|_| run_calls(arena, &mut b, &mut cx, &case.calls));
                classes.extend(cx.classes.iter().copied());
                unsafe { Buffer::detach(&mut b) };
                r
            }
            EitherBuf::O(mut b) => {
                let mut cx = Ctx {
                    off: Buffer::offset(&b),
                    cap: Buffer::capacity(&b),
                    len: 0,
                    base: 0,
                    max_align,
                    classes: BTreeSet::new(),
                };
                if Buffer::offset(&b) != Buffer::buffer_offset(&b) {
                    cx.classes.insert("offset-ne-buffer-offset");
                }
                cx.base = b.base_ptr();
                classes.insert("owned-buffer");
                let pre = vec![Call::SetLen { l: case.fill }];
                let r = run_calls(arena, &mut b, &mut cx, &pre)
                    .and_then(|_| run_calls(arena, &mut b, &mut cx, &case.calls));
                classes.extend(cx.classes.iter().copied());
                unsafe { Buffer::detach(&mut b) };
                std::mem::forget(b);
                r
            }
        };
        for mut k in keep {
            unsafe { Buffer::detach(&mut k) };
        }
        r
    })();
    let nontrivial =
        classes.contains("near-capacity") || classes.contains("offset-ne-buffer-offset");
    CaseReport {
        nontrivial,
        classes,
        viol: res.err(),
    }
}

impl Prop for C14 {
    type Case = CaseC14;
    const ID: &'static str = "C14";
    const PROFILES: &'static [&'static str] = &["checked", "release"];
    fn strategy(tier: Tier) -> BoxedStrategy<CaseC14> {
        let ncalls = if tier == Tier::Thorough { 10 } else { 5 };
        (
            (
                any::<bool>(),
                0u8..2,
                any::<bool>(),
                prop_oneof![Just(0u8), 0u8..20],
                0u8..4,
                any::<bool>(),
            ),
            (
                prop_oneof![3 => 0u16..40, 1 => 40u16..97],
                0u8..crate::types::ntypes() as u8,
                any::<u8>(),
                any::<u16>(),
                prop::collection::vec(call_strategy(), 1..=ncalls),
                0u8..3,
                prop_oneof![2 => Just(None), 1 => any::<u16>().prop_map(Some)],
            ),
        )
            .prop_map(
                |((sync, freelist, unify, reserved, prov, owned), (cap, aty, odd, fill, calls, malign, trunc))| {
                    CaseC14 {
                        sync,
                        freelist,
                        unify,
                        reserved,
                        prov,
                        owned,
                        cap,
                        aty,
                        odd,
                        fill,
                        calls,
                        malign,
                        trunc,
                    }
                },
            )
            .boxed()
    }
    fn run(case: &CaseC14) -> CaseReport {
        if case.sync {
            run_c14::<sync::Arena>(case)
        } else {
            run_c14::<unsync::Arena>(case)
        }
    }
    fn cases(tier: Tier) -> u64 {
        scale(tier, 1_000_000, 12_000_000)
    }
    fn rule() -> &'static str {
        "a buffer (fresh alloc_bytes / recycled from the free list / alloc_aligned_bytes::<T> at an odd cursor / both; borrowed or owned; capacity 0..96) inside an arena whose every other byte is a canary, pre-filled to a generated len, then 1..5 generated calls: put_*/write_* for 12 integer types x {be,le,ne} x boundary/random values, get_*, put+get round trips, LEB128 puts (+ get on an empty buffer), put_slice/write (slice lengths 0..100 and 2^32 + k), get_slice/get_slice_mut over the written prefix, set_len, align_to/put/put_aligned over the type table plus two over-aligned types (32, 64; only on arenas whose maximum alignment - 16, 32 or 64 by case - allows them), on a third of the unsync cases after the arena was resized (truncate) before anything was allocated; the *_unchecked twins (put_u8/put_i8/put_slice/get_u8/get_i8/get_slice/get_slice_mut) are called instead whenever the harness knows the call is inside their contract, and judged by the same oracle. Oracle: whole-memory() snapshot before/after each call: bytes outside [offset, offset+capacity) unchanged, len law, value bytes equal a reference encoder, failed fixed-width puts change nothing, set_len zero-fills exactly the exposed/hidden bytes, align_to pointers aligned and inside the buffer. Non-trivial = a call within size_of bytes of the capacity boundary, or a buffer whose offset differs from its buffer_offset"
    }
    fn simplify(c: &CaseC14) -> Vec<CaseC14> {
        let mut out = Vec::new();
        for i in 0..c.calls.len() {
            let mut x = c.clone();
            x.calls.remove(i);
            out.push(x);
        }
        out
    }
}
