//! Differential / metamorphic properties built on Engine A: C11 (sync == unsync), C16 (layout
//! contract, three backends), C17 (rewind clamp is checked inside the interpreter; clear == fresh).

use super::*;
use crate::case::{Backend, Cfg, Fl, Op};
use crate::enga::{ensure, expected_data_offset, run_history, viol, Mode, Obs, RunOut, Viol, R};
use crate::flavor::Flavor;
use proptest::prelude::*;
use rarena_allocator::{sync, unsync, Allocator};
use serde::{Deserialize, Serialize};
use std::collections::BTreeSet;

fn same_obs(a: &Obs, b: &Obs, with_refs: bool, with_mem: bool) -> bool {
    a.res == b.res
        && a.range == b.range
        && a.snap.allocated == b.snap.allocated
        && a.snap.discarded == b.snap.discarded
        && a.snap.remaining == b.snap.remaining
        && a.snap.capacity == b.snap.capacity
        && a.snap.minseg == b.snap.minseg
        && a.snap.fl == b.snap.fl
        && (!with_refs || a.snap.refs == b.snap.refs)
        && (!with_mem || a.memhash == b.memhash)
}

/// Compare two runs of the same history. `what` names the two sides.
fn compare_runs(
    prop: &'static str,
    a: &RunOut,
    b: &RunOut,
    na: &str,
    nb: &str,
    with_refs: bool,
    with_mem: bool,
) -> Option<Viol> {
    let n = a.trace.len().min(b.trace.len());
    for k in 0..n {
        if !same_obs(&a.trace[k], &b.trace[k], with_refs, with_mem) {
            return Some(viol!(
                prop,
                "observation-differs",
                "step {} (op #{}) differs: {na} {:?} vs {nb} {:?}",
                k,
                a.trace[k].op,
                a.trace[k],
                b.trace[k]
            ));
        }
    }
    match (&a.viol, &b.viol) {
        (None, None) => {
            if let Some(f) = a.foreign.as_ref().or(b.foreign.as_ref()) {
                // a predicate of another property failed (softly) on at least one side; the streams above
                // were still compared in full
                if a.trace.len() == b.trace.len() {
                    return Some(f.clone());
                }
            }
            if a.trace.len() != b.trace.len() {
                return Some(viol!(
                    prop,
                    "length-differs",
                    "{na} made {} steps, {nb} {}",
                    a.trace.len(),
                    b.trace.len()
                ));
            }
            if with_mem && a.mem != b.mem {
                let p = a.mem.iter().zip(b.mem.iter()).position(|(x, y)| x != y);
                return Some(viol!(
                    prop,
                    "memory-differs",
                    "final memory() differs between {na} and {nb} at byte {:?} (lengths {} / {})",
                    p,
                    a.mem.len(),
                    b.mem.len()
                ));
            }
            None
        }
        (Some(x), Some(y)) => {
            if x.prop == y.prop && x.sig == y.sig && a.trace.len() == b.trace.len() {
                // both sides fail the same predicate of another property at the same step: not ours
                Some(Viol {
                    prop: x.prop,
                    sig: x.sig.clone(),
                    msg: x.msg.clone(),
                })
            } else {
                Some(viol!(
                    prop,
                    "one-sided-failure",
                    "{na} failed with {}:{} ({}) after {} steps, {nb} with {}:{} ({}) after {}",
                    x.prop,
                    x.sig,
                    x.msg,
                    a.trace.len(),
                    y.prop,
                    y.sig,
                    y.msg,
                    b.trace.len()
                ))
            }
        }
        (Some(x), None) => Some(viol!(
            prop,
            "one-sided-failure",
            "only {na} failed: {}:{} {}",
            x.prop,
            x.sig,
            x.msg
        )),
        (None, Some(y)) => Some(viol!(
            prop,
            "one-sided-failure",
            "only {nb} failed: {}:{} {}",
            y.prop,
            y.sig,
            y.msg
        )),
    }
}

// ------------------------------------------------------------------------------------------ C11

pub struct C11;
impl Prop for C11 {
    type Case = CaseA;
    const ID: &'static str = "C11";
    fn strategy(tier: Tier) -> BoxedStrategy<CaseA> {
        let mut p = Profile::base();
        p.prelude_pct = 55;
        p.w_discard = 3;
        p.w_minseg = 4;
        p.w_incdisc = 3;
        p.w_rewind = 3;
        p.w_clear = 1;
        p.w_fill = 10;
        p.w_drop = 40;
        p.w_dealloc = 6;
        p.w_detach = 6;
        p.flavors = &[Fl::Sync];
        // truncate exists on unsync::Arena only (it is not part of the trait surface the statement quantifies over)
        strat_a(&p, tier)
            .prop_map(|mut c| {
                c.ops.retain(|o| !matches!(o, Op::Truncate { .. }));
                c
            })
            .boxed()
    }
    fn run(case: &CaseA) -> CaseReport {
        // memory() is deliberately not compared: the statement lists offsets, extents, results and
        // counters; the bytes of a recycled, not yet initialised typed allocation legitimately differ
        // (sync leaves a zeroed size field in the old node header, unsync does not) - see DESIGN.md 9.
        let mode = Mode {
            trace: true,
            ..Mode::default()
        };
        crate::enga::set_owner(Some("C11"));
        let a = run_history::<sync::Arena>(&case.cfg, &case.ops, mode.clone());
        let b = run_history::<unsync::Arena>(&case.cfg, &case.ops, mode);
        crate::enga::set_owner(None);
        let mut viol = compare_runs("C11", &a, &b, "sync", "unsync", true, false);
        let mut classes = a.classes.clone();
        classes.extend(b.classes.iter().copied());
        // the open known finding (DESIGN.md 11.2): a history in which a raw rewind left free-list segments above the
        // cursor - never generated, only replayed from the committed file - carries the finding's signature
        if classes.contains("rewind-left-segments-above-cursor") {
            if let Some(v) = viol.as_mut() {
                v.msg = format!("[{}] {}", v.sig, v.msg);
                v.sig = "rewind-left-segments-above-cursor".into();
            }
        }
        let nontrivial = classes.contains("slow-path") && classes.contains("remainder-split");
        CaseReport {
            nontrivial,
            classes,
            viol,
        }
    }
    fn cases(tier: Tier) -> u64 {
        scale(tier, 600_000, 6_000_000)
    }
    fn rule() -> &'static str {
        "one generated config + history (all alloc flavours, drop/detach/dealloc, discard_freelist, set_minimum_segment_size, increase_discarded, rewind, clear; Vec/anon/file) run on sync::Arena and on unsync::Arena; after every step the observation tuples (result kind, offset, capacity, buffer extent, allocated, discarded, remaining, capacity, min segment, refs, free-list snapshot) must be equal; a panic or oracle failure on one side only is a violation. Non-trivial = the history contains a slow-path allocation and a remainder split"
    }
    fn assumptions() -> Vec<&'static str> {
        vec!["numbers inside InsufficientSpace are ignored (only the error kind is compared)"]
    }
    fn simplify(c: &CaseA) -> Vec<CaseA> {
        simplify_case_a(c)
    }
}

// ------------------------------------------------------------------------------------------ C17

#[derive(Clone, Debug, Serialize, Deserialize)]
pub struct CaseC17 {
    pub cfg: Cfg,
    pub before: Vec<Op>,
    pub after: Vec<Op>,
    /// file-backed cases: after `before`, close, reopen read-only (map / map_copy_read_only by parity of the length)
    /// and issue these rewinds: "in all arena states" includes a read-only arena, where rewind can only be a no-op
    #[serde(default)]
    pub ro_tail: Vec<crate::case::Pos>,
}

pub struct C17;
impl C17 {
    fn profile() -> Profile {
        let mut p = Profile::base();
        p.w_rewind = 18;
        p.w_clear = 2;
        p.w_discard = 3;
        p.w_minseg = 4;
        p.w_incdisc = 3;
        p.w_fill = 8;
        p.w_drop = 35;
        p.owned_pct = 0;
        p.max_ops = 24;
        // "in all arena states": also the states a resize leaves behind (unsync only)
        p.w_truncate = 3;
        p
    }
    fn run_flavor<A: Flavor>(case: &CaseC17) -> (BTreeSet<&'static str>, Option<Viol>) {
        crate::enga::set_owner(Some("C17"));
        let r = Self::run_flavor_inner::<A>(case);
        crate::enga::set_owner(None);
        r
    }
    fn run_flavor_inner<A: Flavor>(case: &CaseC17) -> (BTreeSet<&'static str>, Option<Viol>) {
        let mode = Mode {
            trace: true,
            prefix: true,
            ..Mode::default()
        };
        let mut ops = case.before.clone();
        ops.push(Op::Clear);
        let cut = ops.len();
        ops.extend(case.after.iter().cloned());
        let a = run_history::<A>(&case.cfg, &ops, mode.clone());
        let mut classes = a.classes.clone();
        if let Some(v) = a.viol {
            return (classes, Some(v));
        }
        // minimum segment size in force at the clear
        let minseg = a.trace[cut - 1].snap.minseg;
        // ... and the capacity: a truncate in the history before the clear is not undone by it, so the fresh arena is
        // brought to the same capacity first (each step can at most quadruple it)
        let cap_at_clear = a.trace[cut - 1].snap.capacity;
        let mut ops2 = Vec::new();
        if a.classes.contains("truncate-shrink") || a.classes.contains("truncate-grow") {
            for _ in 0..4 {
                ops2.push(Op::Truncate {
                    n: crate::case::Size::Abs(cap_at_clear as u32),
                });
            }
        }
        ops2.push(Op::SetMinSeg { v: minseg });
        let pre2 = ops2.len();
        ops2.extend(case.after.iter().cloned());
        let b = run_history::<A>(&case.cfg, &ops2, mode);
        classes.extend(b.classes.iter().copied());
        if let Some(v) = b.viol {
            // the fresh arena fails a predicate the cleared one passed: they are distinguishable
            return (
                classes,
                Some(viol!(
                    "C17",
                    "cleared-vs-fresh",
                    "fresh arena failed {}:{} ({}) where the cleared arena did not",
                    v.prop,
                    v.sig,
                    v.msg
                )),
            );
        }
        // state right after clear vs right after construction + set_minimum_segment_size
        if b.trace[pre2 - 1].snap.capacity != cap_at_clear {
            // the fresh arena could not be brought to the capacity of the cleared one (a refused resize): nothing to compare
            classes.insert("fresh-capacity-not-reached");
            return (classes, a.foreign.or(b.foreign));
        }
        // "indistinguishable from a freshly created one": also in the bytes in front of the data area (identification
        // block, padding, header) - they decide whether the file opens again
        {
            let (x, y) = (&a.trace[cut - 1], &b.trace[pre2 - 1]);
            if x.prefix != y.prefix {
                let at = x.prefix.iter().zip(y.prefix.iter()).position(|(p, q)| p != q).unwrap_or(x.prefix.len().min(y.prefix.len()));
                return (classes, Some(viol!("C17", "cleared-vs-fresh-prefix", "after clear() the bytes between the reserved prefix and the data area differ from a fresh arena with the same options at +{at}: cleared {:x?} fresh {:x?}", x.prefix, y.prefix)));
            }
            classes.insert("prefix-bytes-compared");
        }
        let pairs = std::iter::once((&a.trace[cut - 1], &b.trace[pre2 - 1]))
            .chain(a.trace[cut..].iter().zip(b.trace[pre2..].iter()));
        for (k, (x, y)) in pairs.enumerate() {
            // whether a clone / drop-arena step applies depends on how many arena values the history before
            // the clear left alive; that is not state of the arena
            let handle_step = matches!(
                ops.get(x.op),
                Some(Op::CloneArena) | Some(Op::DropArena { .. })
            );
            let same = (k == 0 || ((handle_step || x.res == y.res) && x.range == y.range))
                && x.snap.allocated == y.snap.allocated
                && x.snap.discarded == y.snap.discarded
                && x.snap.remaining == y.snap.remaining
                && x.snap.capacity == y.snap.capacity
                && x.snap.minseg == y.snap.minseg
                && x.snap.fl == y.snap.fl;
            if !same {
                return (
                    classes,
                    Some(viol!(
                        "C17",
                        "cleared-vs-fresh",
                        "continuation step {k}: cleared arena {:?} vs fresh arena {:?}",
                        x,
                        y
                    )),
                );
            }
        }
        // read-only tail
        if case.cfg.backend == Backend::File && !case.ro_tail.is_empty() {
            let mut ops3 = case.before.clone();
            ops3.push(Op::Reopen {
                mode: 2 + (case.ro_tail.len() as u8 & 1),
                cap: 0,
                create: false,
                pb: false,
                flags: 0,
            });
            ops3.extend(case.ro_tail.iter().map(|p| Op::Rewind {
                pos: *p,
                raw: false,
            }));
            let c = run_history::<A>(&case.cfg, &ops3, Mode::default());
            classes.extend(c.classes.iter().copied());
            if let Some(v) = c.viol {
                return (classes, Some(v));
            }
        }
        (classes, a.foreign.or(b.foreign))
    }
}
impl Prop for C17 {
    type Case = CaseC17;
    const ID: &'static str = "C17";
    const PROFILES: &'static [&'static str] = &["checked", "release"];
    fn strategy(tier: Tier) -> BoxedStrategy<CaseC17> {
        let mut p = Self::profile();
        if tier == Tier::Thorough {
            p.max_ops = 60;
        }
        let mut pa = p.clone();
        pa.prelude_pct = 0;
        pa.w_clear = 0;
        // whether a truncate applies depends on how many arena values the history before the clear left alive
        pa.w_truncate = 0;
        (
            cfg_strategy(&p),
            case_strategy(&p),
            prop::collection::vec(op_strategy(&pa), 0..=12),
            prop::collection::vec(crate::case::pos_strategy(), 0..=3),
        )
            .prop_map(|(cfg, c, after, ro_tail)| CaseC17 {
                cfg,
                before: c.ops,
                after,
                ro_tail,
            })
            .boxed()
    }
    fn run(case: &CaseC17) -> CaseReport {
        let (classes, viol) = match case.cfg.flavor {
            Fl::Sync => Self::run_flavor::<sync::Arena>(case),
            Fl::Unsync => Self::run_flavor::<unsync::Arena>(case),
        };
        let nontrivial = (classes.contains("rewind-down") || classes.contains("rewind-up"))
            && classes.contains("clear")
            && (classes.contains("recycled") || classes.contains("release-segment"));
        CaseReport {
            nontrivial,
            classes,
            viol,
        }
    }
    fn cases(tier: Tier) -> u64 {
        scale(tier, 320_000, 8_000_000)
    }
    fn rule() -> &'static str {
        "histories with boundary-dense ArenaPosition values (Start/End/Current at 0, data_offset+-3, allocated+-3, capacity+-3, u32/i64 extremes, -allocated+-3, capacity-allocated+-3) issued in every reachable state under rewind's contract (handles above the target are forgotten first, a free list reaching above it is discarded first); oracle: allocated() == clamp(target computed in i128, data_offset, capacity), nothing else changes, no panic in the checked or the unchecked build. Then clear() followed by a generated continuation, which is also run on a fresh arena with the same options + set_minimum_segment_size(current): cursor at data_offset, empty list, discarded 0, zeroed data area, and equal observation streams. File-backed cases end with a read-only reopen (map / map_copy_read_only) followed by up to three rewinds, which must leave the arena exactly as it is (the cursor lives in a read-only mapping; rewind has no error to return). Non-trivial = the history moved the cursor by rewind, had recycled/segment activity, and cleared"
    }
    fn assumptions() -> Vec<&'static str> {
        vec!["rewind/clear are unsafe: the harness respects their documented contract (no handle above the new cursor is used afterwards)"]
    }
    fn simplify(c: &CaseC17) -> Vec<CaseC17> {
        let mut out = Vec::new();
        for b in simplify_case_a(&CaseA {
            cfg: c.cfg.clone(),
            ops: c.before.clone(),
        }) {
            out.push(CaseC17 {
                cfg: c.cfg.clone(),
                before: b.ops,
                after: c.after.clone(),
                ro_tail: c.ro_tail.clone(),
            });
        }
        for a in simplify_case_a(&CaseA {
            cfg: c.cfg.clone(),
            ops: c.after.clone(),
        }) {
            out.push(CaseC17 {
                cfg: c.cfg.clone(),
                before: c.before.clone(),
                after: a.ops,
                ro_tail: c.ro_tail.clone(),
            });
        }
        out
    }
}

// ------------------------------------------------------------------------------------------ C16

#[derive(Clone, Debug, Serialize, Deserialize)]
pub struct CaseC16 {
    pub cfg: Cfg,
    /// capacity = prefix + delta (may be negative: construction must then fail)
    pub delta: i32,
    pub first_ty: u8,
    pub ops: Vec<Op>,
    /// constructor-only case with a reserved size of u32::MAX - k (the prefix can never fit): construction must fail
    /// cleanly on every backend and layout - no panic, no wrap-around, no crash
    #[serde(default)]
    pub huge_reserved: Option<u8>,
}

pub struct C16;

/// reserved = u32::MAX - k with a small capacity: the prefix (reserved + 1, or align8(reserved) + 8 + header) exceeds
/// any u32 capacity, so every constructor must return an error
fn c16_huge_reserved<A: Flavor>(case: &CaseC16, k: u8) -> R<BTreeSet<&'static str>> {
    use crate::enga::{base_opts, fresh_path, guard};
    let mut classes = BTreeSet::new();
    let cfg = &case.cfg;
    let reserved = u32::MAX - k as u32;
    let cap = 64 + case.delta.unsigned_abs() % 8000;
    let opts = base_opts(cfg).with_reserved(reserved).with_capacity(cap);
    classes.insert("reserved-near-u32-max");
    let what;
    let accepted = match cfg.backend {
        Backend::Vec => {
            what = "alloc";
            guard("alloc(ctor, huge reserved)", "C16", || {
                opts.alloc::<A>().map(std::mem::forget).is_ok()
            })?
        }
        Backend::Anon => {
            what = "map_anon";
            guard("map_anon(huge reserved)", "C16", || {
                opts.map_anon::<A>().map(std::mem::forget).is_ok()
            })?
        }
        Backend::File => {
            what = "map_mut";
            let p = fresh_path();
            let _ = std::fs::remove_file(&p);
            let o = opts.with_read(true).with_write(true).with_create_new(true);
            let r = guard("map_mut(create, huge reserved)", "C16", || {
                unsafe { o.map_mut::<A, _>(&p) }
                    .map(std::mem::forget)
                    .is_ok()
            });
            let _ = std::fs::remove_file(&p);
            r?
        }
    };
    ensure!(!accepted, "C16", "ctor-accepted-small", "{what} with reserved {reserved} (unify {}) and capacity {cap} succeeded: the prefix cannot fit", cfg.unify);
    Ok(classes)
}

fn c16_ctor<A: Flavor>(case: &CaseC16) -> R<BTreeSet<&'static str>> {
    use crate::enga::{base_opts, fresh_path, guard, page_size};
    let mut classes = BTreeSet::new();
    let cfg = &case.cfg;
    let opts = base_opts(cfg);
    let file = cfg.backend == Backend::File;
    let d = expected_data_offset::<A>(cfg);
    let cap_i = d as i64 + case.delta as i64;
    if cap_i < 0 || cap_i > u32::MAX as i64 {
        return Ok(classes);
    }
    let cap = cap_i as u32;
    if cfg.backend != Backend::Vec && cap == 0 {
        // a zero-length mapping is refused by the OS before rarena sees it
        return Ok(classes);
    }
    let should_fit = cap as usize >= d;
    if cfg.reserved % 8 != 0 {
        classes.insert("reserved-unaligned");
    }
    if case.delta.abs() <= 1 {
        classes.insert("capacity-at-prefix");
    }
    let page = page_size();
    let mut path = None;
    let r: Result<A, String> = match cfg.backend {
        Backend::Vec => guard("alloc(ctor)", "C16", || {
            opts.with_capacity(cap).alloc::<A>()
        })?
        .map_err(|e| {
            format!(
                "{e:?}|{}",
                matches!(e, rarena_allocator::Error::InsufficientSpace { .. })
            )
        }),
        Backend::Anon => guard("map_anon", "C16", || {
            opts.with_capacity(cap).map_anon::<A>()
        })?
        .map_err(|e| format!("{e:?}|{}", e.kind() == std::io::ErrorKind::InvalidInput)),
        Backend::File => {
            let p = fresh_path();
            let _ = std::fs::remove_file(&p);
            let o = opts
                .with_capacity(cap)
                .with_read(true)
                .with_write(true)
                .with_offset(cfg.off_pages as u64 * page as u64);
            let o = if cfg.create_new {
                o.with_create_new(true)
            } else {
                o.with_create(true)
            };
            let r = guard("map_mut(create)", "C16", || unsafe {
                o.map_mut::<A, _>(&p)
            })?;
            path = Some(p);
            r.map_err(|e| format!("{e:?}|{}", e.kind() == std::io::ErrorKind::InvalidInput))
        }
    };
    let cleanup = |p: &Option<std::path::PathBuf>| {
        if let Some(p) = p {
            let _ = std::fs::remove_file(p);
        }
    };
    match r {
        Err(e) => {
            cleanup(&path);
            ensure!(
                !should_fit,
                "C16",
                "ctor-refused",
                "{:?} constructor failed although capacity {cap} >= prefix {d}: {e}",
                cfg.backend
            );
            ensure!(e.ends_with("|true"), "C16", "ctor-error-kind", "{:?} constructor with capacity {cap} < prefix {d} failed with the wrong error: {e}", cfg.backend);
            classes.insert("ctor-refused");
            Ok(classes)
        }
        Ok(a) => {
            let res = (|| -> R {
                ensure!(
                    should_fit,
                    "C16",
                    "ctor-accepted-small",
                    "{:?} constructor succeeded with capacity {cap} < prefix {d}",
                    cfg.backend
                );
                ensure!(
                    a.data_offset() == d,
                    "C16",
                    "data-offset",
                    "data_offset()={} but Options says {d} (reserved {}, unify {}, backend {:?})",
                    a.data_offset(),
                    cfg.reserved,
                    cfg.unify,
                    cfg.backend
                );
                ensure!(
                    a.allocated() == d,
                    "C16",
                    "initial-cursor",
                    "fresh arena allocated()={} data_offset {d}",
                    a.allocated()
                );
                ensure!(
                    a.capacity() == cap as usize,
                    "C16",
                    "acc-capacity",
                    "capacity()={} requested {cap}",
                    a.capacity()
                );
                ensure!(
                    a.remaining() == cap as usize - d,
                    "C16",
                    "remaining-law",
                    "fresh arena remaining()={}",
                    a.remaining()
                );
                ensure!(
                    a.reserved_bytes() == cfg.reserved as usize
                        && a.reserved_slice().len() == cfg.reserved as usize,
                    "C16",
                    "reserved-len",
                    "reserved_bytes()={} reserved_slice().len()={} configured {}",
                    a.reserved_bytes(),
                    a.reserved_slice().len(),
                    cfg.reserved
                );
                ensure!(
                    a.reserved_slice().iter().all(|b| *b == 0),
                    "C16",
                    "reserved-written",
                    "reserved prefix of a fresh arena is not zero"
                );
                ensure!(
                    a.unify() == (cfg.unify || file),
                    "C16",
                    "acc-unify",
                    "unify()={} configured {} file {file}",
                    a.unify(),
                    cfg.unify
                );
                ensure!(
                    !a.read_only(),
                    "C16",
                    "acc-read-only",
                    "fresh arena is read_only()"
                );
                ensure!(
                    a.is_map() == (cfg.backend != Backend::Vec),
                    "C16",
                    "acc-is-map",
                    "is_map()={} for {:?}",
                    a.is_map(),
                    cfg.backend
                );
                ensure!(
                    a.is_ondisk() == file && a.is_inmemory() == !file,
                    "C16",
                    "acc-ondisk",
                    "is_ondisk()={} is_inmemory()={} for {:?}",
                    a.is_ondisk(),
                    a.is_inmemory(),
                    cfg.backend
                );
                ensure!(
                    a.is_map_anon() == (cfg.backend == Backend::Anon) && a.is_map_file() == file,
                    "C16",
                    "acc-map-kind",
                    "is_map_anon()={} is_map_file()={} for {:?}",
                    a.is_map_anon(),
                    a.is_map_file(),
                    cfg.backend
                );
                ensure!(
                    a.magic_version() == cfg.magic && a.version() == 0,
                    "C16",
                    "acc-magic",
                    "magic_version()={} version()={} configured {}",
                    a.magic_version(),
                    a.version(),
                    cfg.magic
                );
                ensure!(
                    a.page_size() == page,
                    "C16",
                    "acc-page-size",
                    "page_size()={} sysconf {page}",
                    a.page_size()
                );
                ensure!(
                    a.minimum_segment_size() == cfg.min_seg,
                    "C16",
                    "acc-minseg",
                    "minimum_segment_size()={} configured {}",
                    a.minimum_segment_size(),
                    cfg.min_seg
                );
                ensure!(
                    a.refs() == 1,
                    "C16",
                    "acc-refs",
                    "fresh arena refs()={}",
                    a.refs()
                );
                ensure!(
                    a.memory().len() == cap as usize
                        && a.allocated_memory().len() == d
                        && a.data().is_empty(),
                    "C16",
                    "acc-slices",
                    "memory()/allocated_memory()/data() lengths {} {} {}",
                    a.memory().len(),
                    a.allocated_memory().len(),
                    a.data().len()
                );
                // first allocation starts at the first suitably aligned offset at or after data_offset
                let t = crate::types::TYPES[case.first_ty as usize % crate::types::TYPES.len()];
                if t.size > 0 {
                    let start = (d + t.align - 1) & !(t.align - 1);
                    let ar: &'static A = unsafe { &*(&a as *const A) };
                    let r = guard("alloc", "C04", || {
                        crate::flavor::alloc_typed(
                            ar,
                            case.first_ty as usize % crate::types::TYPES.len(),
                            false,
                        )
                    })?;
                    if start + t.size <= cap as usize {
                        match r {
                            Ok(mut h) => {
                                ensure!(h.offset() == start, "C16", "first-offset", "first alloc::<{}>() at {} expected {start} (data_offset {d})", t.name, h.offset());
                                h.detach();
                                drop(h);
                            }
                            Err(e) => return Err(viol!("C16", "first-refused", "first alloc::<{}>() refused although [{start}, {}) fits capacity {cap}: {e:?}", t.name, start + t.size)),
                        }
                    } else {
                        drop(r);
                    }
                }
                Ok(())
            })();
            if file {
                match (a.path(), &path) {
                    (Some(_), Some(_)) => {}
                    _ => {
                        cleanup(&path);
                        return Err(viol!("C16", "acc-path", "file-backed arena has no path()"));
                    }
                }
            } else if a.path().is_some() {
                return Err(viol!("C16", "acc-path", "in-memory arena reports a path()"));
            }
            drop(a);
            cleanup(&path);
            res.map(|_| classes)
        }
    }
}

fn c_has_truncate(ops: &[Op]) -> bool {
    ops.iter().any(|o| matches!(o, Op::Truncate { .. }))
}

fn c16_run_inner(case: &CaseC16) -> CaseReport {
    if let Some(k) = case.huge_reserved {
        let r = match case.cfg.flavor {
            Fl::Sync => c16_huge_reserved::<sync::Arena>(case, k),
            Fl::Unsync => c16_huge_reserved::<unsync::Arena>(case, k),
        };
        return match r {
            Ok(classes) => CaseReport {
                nontrivial: true,
                classes,
                viol: None,
            },
            Err(v) => CaseReport {
                nontrivial: false,
                classes: BTreeSet::new(),
                viol: Some(v),
            },
        };
    }
    let r = match case.cfg.flavor {
        Fl::Sync => c16_ctor::<sync::Arena>(case),
        Fl::Unsync => c16_ctor::<unsync::Arena>(case),
    };
    let mut classes = match r {
        Ok(c) => c,
        Err(v) => {
            return CaseReport {
                nontrivial: false,
                classes: BTreeSet::new(),
                viol: Some(v),
            }
        }
    };
    // three backends, unified layout, same history
    let mut viol = None;
    if case.delta >= 0 {
        let mut cfg = case.cfg.clone();
        cfg.unify = true;
        cfg.cap_extra = case.delta as u32;
        cfg.off_pages = 0;
        let mode = Mode {
            trace: true,
            memhash: true,
            ..Mode::default()
        };
        // truncate (and close + reopen, which only a file has) is left out of the lock-step comparison: what it does to bytes at or above allocated()
        // is backend specific (a file keeps them, a new heap block / anonymous map does not) and the
        // statement does not say otherwise; it is exercised by the single-backend run below
        let lock_ops: Vec<Op> = case
            .ops
            .iter()
            .filter(|o| !matches!(o, Op::Truncate { .. } | Op::Reopen { .. }))
            .cloned()
            .collect();
        let run = |b: Backend| {
            let mut c = cfg.clone();
            c.backend = b;
            match c.flavor {
                Fl::Sync => run_history::<sync::Arena>(&c, &lock_ops, mode.clone()),
                Fl::Unsync => run_history::<unsync::Arena>(&c, &lock_ops, mode.clone()),
            }
        };
        let (v, a, f) = (run(Backend::Vec), run(Backend::Anon), run(Backend::File));
        classes.extend(v.classes.iter().copied());
        viol = compare_runs("C16", &v, &a, "Vec", "anon-mmap", true, true)
            .or_else(|| compare_runs("C16", &v, &f, "Vec", "file-mmap", true, true));
        if viol.is_none() && !v.trace.is_empty() {
            classes.insert("three-backends-compared");
        }
        // with truncate in the history only the two in-memory backends are compared (a grown file keeps whatever
        // bytes lay above the cursor, a new heap block or anonymous map starts zeroed - see section 9, entry 8); the
        // two of them must still agree byte for byte, in particular on what lies above the cursor after growing
        if viol.is_none() && c_has_truncate(&case.ops) && cfg.flavor == Fl::Unsync {
            let t_ops: Vec<Op> = case
                .ops
                .iter()
                .filter(|o| !matches!(o, Op::Reopen { .. }))
                .cloned()
                .collect();
            let run2 = |b: Backend| {
                let mut c = cfg.clone();
                c.backend = b;
                run_history::<unsync::Arena>(&c, &t_ops, mode.clone())
            };
            let (v2, a2) = (run2(Backend::Vec), run2(Backend::Anon));
            viol = compare_runs("C16", &v2, &a2, "Vec", "anon-mmap", true, true);
            if viol.is_none() && !v2.trace.is_empty() {
                classes.insert("vec-and-anon-compared-with-truncate");
            }
        }
        // the whole history (with truncate) on the case's own backend and layout: reserved prefix,
        // remaining law and accessors are checked after every step by the interpreter
        // (also when the lock-step runs only tripped over a predicate of another property: what that does
        // to the reserved prefix is still this property's business)
        if viol
            .as_ref()
            .map_or(true, |v| !crate::enga::owns(v.prop, "C16"))
        {
            let lock_viol = viol.take();
            let mut c = case.cfg.clone();
            c.cap_extra = case.delta as u32;
            let smode = Mode {
                below_cursor_reopen: true,
                ..Mode::default()
            };
            let single = match c.flavor {
                Fl::Sync => run_history::<sync::Arena>(&c, &case.ops, smode.clone()),
                Fl::Unsync => run_history::<unsync::Arena>(&c, &case.ops, smode),
            };
            classes.extend(single.classes.iter().copied());
            viol = match single.viol {
                Some(v) if crate::enga::owns(v.prop, "C16") => Some(v),
                other => lock_viol.or(other).or(single.foreign),
            };
        }
    }
    let nontrivial =
        classes.contains("reserved-unaligned") || classes.contains("capacity-at-prefix");
    CaseReport {
        nontrivial,
        classes,
        viol,
    }
}

impl Prop for C16 {
    type Case = CaseC16;
    const ID: &'static str = "C16";
    // "unopt": an unoptimised build (a sixteenth of the cases): there a struct written by value carries whatever the
    // stack held in its padding, so "the bytes ... are identical" is judged on real copies, not on what the
    // optimiser happens to emit
    const PROFILES: &'static [&'static str] = &["checked", "unopt"];
    fn strategy(tier: Tier) -> BoxedStrategy<CaseC16> {
        let mut p = Profile::base();
        p.reserved_max = 4096;
        p.max_ops = if tier == Tier::Thorough { 60 } else { 24 };
        p.prelude_pct = 40;
        p.w_fill = 8;
        p.w_drop = 35;
        p.w_minseg = 2;
        p.w_discard = 2;
        p.owned_pct = 10;
        // "never written by any arena operation": truncate (unsync), clear and rewind belong to the history too
        p.w_truncate = 8;
        p.w_clear = 1;
        p.w_rewind = 2;
        // file-backed cases: close + reopen in every mode (single-backend run only), so that the accessor table and the
        // data offset are also judged on arenas that were opened rather than created
        p.w_reopen = 4;
        p.reopen_modes = &[(3, 0), (3, 1), (2, 2), (1, 3)];
        let delta = prop_oneof![4 => -3i32..=3, 1 => -40i32..0, 3 => 4i32..3000];
        (
            cfg_strategy(&p),
            delta,
            0u8..crate::types::ntypes() as u8,
            prop::collection::vec(op_strategy(&p), 0..=p.max_ops),
            prelude_strategy(),
            any::<bool>(),
            prop_oneof![60 => Just(None), 1 => (0u8..24).prop_map(Some)],
        )
            .prop_map(|(cfg, delta, first_ty, ops, pre, use_pre, huge_reserved)| {
                let mut all = if use_pre { pre } else { vec![] };
                all.extend(ops);
                CaseC16 {
                    cfg,
                    delta,
                    first_ty,
                    ops: all,
                    huge_reserved,
                }
            })
            .boxed()
    }
    fn run(case: &CaseC16) -> CaseReport {
        crate::enga::set_owner(Some("C16"));
        let r = c16_run_inner(case);
        crate::enga::set_owner(None);
        r
    }
    fn cases(tier: Tier) -> u64 {
        scale(tier, 400_000, 3_000_000)
    }
    fn rule() -> &'static str {
        "constructor cases: reserved 0..=4096 (and, one case in 60, u32::MAX-k with a small capacity, where every constructor must fail without a panic or a wrap-around), capacity = prefix + delta (delta -40..3000, dense at -3..=3), unify on/off, Vec/anon/file, both flavours: construction succeeds iff capacity >= Options::data_offset / data_offset_unify (the API's own functions are the reference) and fails with InsufficientSpace (Vec) / InvalidInput (maps); data_offset(), first allocation offset, reserved_slice length, remaining law and the descriptive accessor table match the constructor used (the accessor table, data_offset() and the remaining law are re-checked after every step of every history for every live arena value - clones and reopened files included). Then one generated history is run with unify=true on Vec, anon and file arenas: observation tuples and a hash of memory() equal after every step, final memory() equal. Reserved prefix pattern checked after every step. Non-trivial = reserved not a multiple of 8 or capacity within +-1 of the prefix"
    }
    fn simplify(c: &CaseC16) -> Vec<CaseC16> {
        simplify_case_a(&CaseA {
            cfg: c.cfg.clone(),
            ops: c.ops.clone(),
        })
        .into_iter()
        .map(|x| CaseC16 {
            cfg: c.cfg.clone(),
            delta: c.delta,
            first_ty: c.first_ty,
            ops: x.ops,
            huge_reserved: c.huge_reserved,
        })
        .collect()
    }
}
