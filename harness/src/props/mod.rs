//! Per-property generator profiles, oracle selection and non-trivial rules.

use crate::case::*;
use crate::enga::{run_case, Mode};
use crate::runner::{CaseReport, Prop, Tier};
use proptest::strategy::BoxedStrategy;

pub mod enga_props;
pub use enga_props::*;
pub mod diff_props;
pub use diff_props::*;
pub mod c14;
pub use c14::C14;
pub mod engb_props;
pub use engb_props::{C02, C03, C04, C07, C08, C12, C13};
pub mod c06;
pub use c06::C06;
pub mod c09;
pub use c09::C09;
pub mod small;
pub use small::{C15, C19};

/// smaller variants of an Engine-A case: drop chunks of the op list (ddmin style)
pub fn simplify_case_a(c: &CaseA) -> Vec<CaseA> {
    let n = c.ops.len();
    let mut out = Vec::new();
    let mut chunk = n / 2;
    while chunk >= 1 {
        let mut start = 0;
        while start < n {
            let end = (start + chunk).min(n);
            let mut ops = c.ops.clone();
            ops.drain(start..end);
            out.push(CaseA { cfg: c.cfg.clone(), ops });
            start = end;
        }
        if chunk == 1 {
            break;
        }
        chunk /= 2;
    }
    out
}

pub fn report_a(owner: &'static str, case: &CaseA, mode: Mode, nontrivial: impl Fn(&std::collections::BTreeSet<&'static str>) -> bool) -> CaseReport {
    crate::enga::set_owner(Some(owner));
    let out = run_case(case, mode);
    crate::enga::set_owner(None);
    CaseReport { nontrivial: nontrivial(&out.classes), classes: out.classes, viol: out.viol.or(out.foreign) }
}

pub fn scale(tier: Tier, quick: u64, thorough: u64) -> u64 {
    match tier {
        Tier::Quick => quick,
        Tier::Thorough => thorough,
    }
}

pub fn strat_a(p: &Profile, tier: Tier) -> BoxedStrategy<CaseA> {
    let mut p = p.clone();
    if tier == Tier::Thorough {
        p.max_ops *= 3;
    }
    case_strategy(&p)
}

