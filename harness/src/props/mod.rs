//! Per-property generator profiles, oracle selection and non-trivial rules.

use crate::case::*;
use crate::enga::{run_case, Mode};
use crate::runner::{CaseReport, Prop, Tier};
use proptest::strategy::BoxedStrategy;

pub mod enga_props;
pub use enga_props::*;
pub mod diff_props;
pub use diff_props::*;
pub mod c14;
pub use c14::C14;
pub mod engb_props;
pub use engb_props::{C02, C03, C04, C07, C08, C12, C13};
pub mod c06;
pub use c06::C06;
pub mod c09;
pub use c09::C09;
pub mod small;
pub use small::{C15, C19};

/// smaller variants of an Engine-A case: drop chunks of the op list (ddmin style)
pub fn simplify_case_a(c: &CaseA) -> Vec<CaseA> {
    let n = c.ops.len();
    let mut out = Vec::new();
    let mut chunk = n / 2;
    while chunk >= 1 {
        let mut start = 0;
        while start < n {
            let end = (start + chunk).min(n);
            let mut ops = c.ops.clone();
            ops.drain(start..end);
            out.push(CaseA {
                cfg: c.cfg.clone(),
                ops,
            });
            start = end;
        }
        if chunk == 1 {
            break;
        }
        chunk /= 2;
    }
    out
}

pub fn report_a(
    owner: &'static str,
    case: &CaseA,
    mode: Mode,
    nontrivial: impl Fn(&std::collections::BTreeSet<&'static str>) -> bool,
) -> CaseReport {
    crate::enga::set_owner(Some(owner));
    let out = run_case(case, mode);
    crate::enga::set_owner(None);
    CaseReport {
        nontrivial: nontrivial(&out.classes),
        classes: out.classes,
        viol: out.viol.or(out.foreign),
    }
}

pub fn scale(tier: Tier, quick: u64, thorough: u64) -> u64 {
    match tier {
        Tier::Quick => quick,
        Tier::Thorough => thorough,
    }
}

/// The property's own profile with every operation it leaves out switched on at a low weight (and, for file-backed
/// cases, close + reopen in all four modes): op families interact - truncate inside a copy-on-write session,
/// clear before a reopen, a clone made before a rewind - and a profile that is tuned to one property never
/// produces those histories. The interpreter respects every operation's contract itself, so the property's
/// predicates must hold on these histories as well.
pub fn mixed(p: &Profile) -> Profile {
    let mut m = p.clone();
    let up = |w: &mut u32, to: u32| {
        if *w == 0 {
            *w = to;
        }
    };
    up(&mut m.w_discard, 2);
    up(&mut m.w_minseg, 2);
    up(&mut m.w_incdisc, 2);
    up(&mut m.w_rewind, 2);
    up(&mut m.w_clear, 1);
    up(&mut m.w_truncate, 3);
    up(&mut m.w_flush, 1);
    up(&mut m.w_clone, 2);
    up(&mut m.w_droparena, 2);
    up(&mut m.w_detach, 4);
    up(&mut m.w_dealloc, 4);
    if m.w_reopen == 0 {
        m.w_reopen = 3;
        m.reopen_modes = &[(4, 0), (2, 1), (2, 2), (1, 3)];
    }
    m
}

pub fn strat_a(p: &Profile, tier: Tier) -> BoxedStrategy<CaseA> {
    use proptest::prelude::*;
    let mut p = p.clone();
    if tier == Tier::Thorough {
        p.max_ops *= 3;
    }
    prop_oneof![
        7 => case_strategy(&p),
        1 => case_strategy(&mixed(&p)),
    ]
    .boxed()
}
