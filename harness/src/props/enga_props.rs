use super::*;
use crate::case::{Backend, Op, Size};

macro_rules! enga_prop {
    ($name:ident, $id:literal, profiles = $profiles:expr, profile = $profile:expr, mode = $mode:expr,
     nontrivial = $nt:expr, rule = $rule:literal, quick = $q:expr, thorough = $t:expr, assumptions = $assume:expr) => {
        pub struct $name;
        impl Prop for $name {
            type Case = CaseA;
            const ID: &'static str = $id;
            const PROFILES: &'static [&'static str] = $profiles;
            fn strategy(tier: Tier) -> BoxedStrategy<CaseA> {
                let p: Profile = $profile;
                strat_a(&p, tier)
            }
            fn run(case: &CaseA) -> CaseReport {
                report_a($id, case, $mode, $nt)
            }
            fn cases(tier: Tier) -> u64 {
                scale(tier, $q, $t)
            }
            fn rule() -> &'static str {
                concat!($rule, ". One history in eight is drawn from the same profile with every operation it leaves out switched on at a low weight (discard_freelist, set_minimum_segment_size, increase_discarded, rewind, clear, truncate, flush, arena clone / drop, detach, explicit dealloc, and for file-backed cases close + reopen in the four modes): the interpreter keeps every operation's contract, so the same predicates apply")
            }
            fn assumptions() -> Vec<&'static str> {
                $assume
            }
            fn simplify(c: &CaseA) -> Vec<CaseA> {
                simplify_case_a(c)
            }
        }
    };
}

const CHECKED: &[&str] = &["checked"];
const BOTH_PROFILES: &[&str] = &["checked", "release"];

const COMMON_ASSUME: &[&str] = &[
    "hook trusted base: with feature `verif` the atomics are layout-transparent wrappers forwarding to the same core atomic with the same orderings; the free-list snapshot is a raw bounded walk",
    "borrowed handles are held through an unsafely lifetime-extended reference; the harness drops them before the arena value they borrow from, as the borrow checker would force a user to",
];

enga_prop!(C01, "C01", profiles = CHECKED,
    profile = Profile::base(),
    mode = Mode::default(),
    nontrivial = |c| c.contains("recycled-with-2-live"),
    rule = "Engine A histories (alloc_bytes/aligned/typed, owned or borrowed, write, drop, detach, explicit dealloc, fill-to-exhaustion) over generated configs (flavour x freelist x backend x unify x reserved x min segment x max alignment x capacity); after every step: every live range inside [data_offset, allocated()], pairwise disjoint, bytes equal to what was last written through the handle. Non-trivial = at least one allocation served from recycled space (buffer_offset below the pre-call cursor) while >= 2 other handles were live; distinct by FNV-64 of the serialised case",
    quick = 800_000, thorough = 10_000_000,
    assumptions = COMMON_ASSUME.to_vec());

enga_prop!(C03A, "C03", profiles = CHECKED,
    profile = { let mut p = Profile::base(); p.w_typed = 45; p.w_aligned = 35; p.w_bytes = 30; p.zero_pct = 12; p.w_fill = 10; p.huge = true; p },
    mode = Mode::default(),
    nontrivial = |c| c.contains("typed-recycled") || c.contains("typed-at-odd-cursor") || c.contains("zero-size-on-full"),
    rule = "Engine A histories biased to typed/aligned allocations over a 40-type table (align 1..16, size 0..64, ZSTs, drop types) at every cursor residue, with sizes over the whole u32 range (\"all n\": an Ok answer to a request near u32::MAX must still have the promised capacity); at each successful call: capacity law, offset alignment, address alignment when align <= maximum_alignment, zero-size requests succeed without consuming space. Non-trivial = a typed/aligned allocation served from a recycled segment, or at a cursor not aligned for T, or a zero-size request on a full arena",
    quick = 320_000, thorough = 10_000_000,
    assumptions = COMMON_ASSUME.to_vec());

enga_prop!(C04A, "C04", profiles = BOTH_PROFILES,
    profile = { let mut p = Profile::base(); p.huge = true; p.w_fill = 8; p.w_aligned = 30; p.w_typed = 20; p.w_reopen = 2; p.reopen_modes = &[(2, 0), (2, 2), (1, 3), (2, 1)]; p.w_truncate = 3; p },
    mode = Mode::default(),
    nontrivial = |c| c.contains("huge-request") || c.contains("alloc-failed-full"),
    rule = "Engine A histories with boundary-dense huge sizes (u32::MAX-k, u32::MAX-allocated+-d, 2^31+-d, capacity+-d, remaining+-d, random u32) for bytes and extra, every type, on every reachable state, under an overflow-checked and an unchecked build (same seeds). Oracle: no panic, no signal (worker processes supervised), Ok => in-arena range with capacity <= arena capacity + C01/C03 predicates, Err => InsufficientSpace/ReadOnly and allocated/discarded/remaining/free list unchanged. Non-trivial = a request that exceeds remaining() or whose end would pass 2^32",
    quick = 320_000, thorough = 10_000_000,
    assumptions = { let mut v = COMMON_ASSUME.to_vec(); v.push("out-of-arena reads/writes are visible in the quick tier only through their consequences (crash, corrupted neighbour pattern); the thorough tier adds an AddressSanitizer fuzz target"); v });

enga_prop!(C08A, "C08", profiles = CHECKED,
    profile = { let mut p = Profile::base(); p.caps = BIG_CAPS; p.w_bytes = 70; p.w_typed = 10; p.w_aligned = 10; p.w_drop = 45; p.w_fill = 10; p.w_rewind = 5; p.w_clone = 5; p.w_droparena = 3; p.w_discard = 3; p.w_clear = 1; p.w_dealloc = 6; p.w_detach = 6; p.w_reopen = 2; p },
    mode = Mode { dirty: true, ..Mode::default() },
    nontrivial = |c| c.contains("zeroed-dirty"),
    rule = "Engine A histories in which every owner fills its whole range with non-zero bytes right after allocation; releases via drop on top, drop not on top, explicit dealloc; rewind, discard_freelist, clear, file reopen; at the return of every alloc_bytes/alloc_bytes_owned every byte of the returned range is zero; one configuration in sixteen is a large arena (70 000 - 300 000 bytes, so that buffers of tens of pages are released and re-issued - page-granular shortcuts only exist there). Non-trivial = the returned range intersects bytes an earlier owner had set non-zero",
    quick = 320_000, thorough = 10_000_000,
    assumptions = COMMON_ASSUME.to_vec());

enga_prop!(C10, "C10", profiles = CHECKED,
    profile = { let mut p = Profile::base(); p.freelists = ALL_FL; p.caps = SMALL_CAPS; p.prelude_pct = 75; p.w_fill = 14; p.w_drop = 45; p.w_dealloc = 8; p.w_detach = 8; p.w_minseg = 5; p.w_discard = 2; p.w_bytes = 60; p.owned_pct = 15; p },
    mode = Mode::default(),
    nontrivial = |c| c.contains("slow-path-3-nodes-tie") || (c.contains("slow-path-3-nodes") && c.contains("remainder-split")),
    rule = "Engine A 'exhaust' histories (fill early, many frees of tied sizes, min-segment changes, discard_freelist, requests sized around the largest/smallest/median segment +-9). After every step the free-list snapshot is finite, 8-aligned, inside the handed-out area, extents disjoint from each other and from live ranges, ordered by size; at every allocation fresh space cannot satisfy, the serving node / failure obeys the Optimistic/Pessimistic policy and the new list = old - serving (+ at most one remainder inside the served extent, >= min segment); Freelist::None never reuses. Non-trivial = a slow-path allocation with >= 3 nodes on the list and a size tie, or with >= 3 nodes and a remainder split",
    quick = 800_000, thorough = 10_000_000,
    assumptions = COMMON_ASSUME.to_vec());

enga_prop!(C13A, "C13", profiles = CHECKED,
    profile = { let mut p = Profile::base(); p.max_ops = 30; p.w_clone = 12; p.w_droparena = 12; p.owned_pct = 55; p.drop_ty_pct = 45; p.prelude_pct = 15; p.w_detach = 12; p.w_typed = 40; p.w_drop = 35; p.w_reopen = 3; p.reopen_modes = &[(3, 0), (3, 1), (1, 2), (1, 3)]; p.backends = &[(6, Backend::Vec), (2, Backend::Anon), (3, Backend::File)]; p },
    mode = Mode { count_unmount: true, ..Mode::default() },
    nontrivial = |c| c.contains("owned-outlived-original") && c.contains("value-dropped-via-handle"),
    rule = "Engine A 'handles' histories: arena clone/drop (original may go first), every alloc flavour borrowed/owned, detach, drop in any order, drop-counting value types, generated teardown order. Per drop: effect equals exactly one dealloc(buffer_offset, buffer_capacity) (cursor move, or one node inside the extent, or discarded += extent), detached drop changes nothing, value dropped exactly once / not at all when detached, refs() == live arena values + owned handles, Unmount hook event fires exactly once, at the drop that brings the count to zero. Non-trivial = an owned handle outlived the original arena value and a drop-type value was dropped through a handle",
    quick = 240_000, thorough = 5_000_000,
    assumptions = { let mut v = COMMON_ASSUME.to_vec(); v.push("release of the backing store is observed through the verif Unmount event at the top of Memory::unmount (one event = one release)"); v });

enga_prop!(C18A, "C18", profiles = CHECKED,
    profile = { let mut p = Profile::base(); p.flavors = &[Fl::Unsync]; p.w_clone = 0; p.w_droparena = 0; p.w_truncate = 14; p.w_fill = 8; p.w_drop = 35; p.w_detach = 10; p.w_minseg = 2; p.w_incdisc = 2; p.w_reopen = 3; p.reopen_modes = &[(3, 0), (3, 1), (1, 2), (1, 3)]; p.backends = &[(4, Backend::Vec), (3, Backend::Anon), (3, Backend::File)]; p },
    mode = Mode::default(),
    nontrivial = |c| c.contains("truncate-with-freelist-and-live"),
    rule = "Engine A histories on unsync::Arena with truncate(n), n around allocated()/capacity() and up to 4x capacity, on Vec/anon/file backends; oracle: capacity()==max(n, allocated), allocated/discarded/free list/bytes below allocated unchanged, live ranges intact, afterwards an allocation that fits fresh space must succeed. Non-trivial = a truncate while the free list was non-empty and detached live data existed",
    quick = 720_000, thorough = 5_000_000,
    assumptions = { let mut v = COMMON_ASSUME.to_vec(); v.push("truncate is only called while refs()==1 and no handle object exists (it re-creates the backing store)"); v });

enga_prop!(C20, "C20", profiles = CHECKED,
    profile = { let mut p = Profile::base(); p.caps = SMALL_CAPS; p.w_incdisc = 8; p.big_incdisc = true; p.w_minseg = 6; p.w_discard = 8; p.w_fill = 10; p.w_drop = 45; p.w_dealloc = 8; p.w_detach = 8; p.w_clear = 1; p.w_reopen = 2; p.reopen_modes = &[(2, 0), (2, 2), (1, 3), (1, 1)]; p },
    mode = Mode::default(),
    nontrivial = |c| c.contains("discard-nonempty") || (c.contains("release-too-small") && c.contains("slow-path")) || c.contains("release-discarded"),
    rule = "Engine A 'discard' histories (frees of every size class, increase_discarded, set_minimum_segment_size, discard_freelist, clear). Per step: discarded() never decreases except through clear; increase_discarded(n) => +n for n over the whole u32 range (once the true sum passes u32::MAX the counter cannot follow: it must then not decrease and nothing else may move); Freelist::None non-top release => +size; release producing no node => +size and the range is never handed out again; discard_freelist returns the sum of the size fields, adds exactly that, empties the list. Non-trivial = discard_freelist on a non-empty list, or a too-small release in a history that later used the slow path, or a Freelist::None non-top release",
    quick = 800_000, thorough = 10_000_000,
    assumptions = COMMON_ASSUME.to_vec());

enga_prop!(C05, "C05", profiles = CHECKED,
    profile = { let mut p = Profile::base(); p.max_ops = 36; p.backends = FILE_ONLY; p.caps = SMALL_CAPS; p.w_reopen = 10; p.w_flush = 3; p.w_fill = 8; p.w_drop = 35; p.w_incdisc = 3; p.w_minseg = 3; p.w_detach = 8; p.w_dealloc = 6; p.w_clear = 1; p.w_rewind = 2; p.w_discard = 2; p.reopen_modes = &[(5, 0), (2, 1), (2, 2), (1, 3)]; p },
    mode = Mode::default(),
    nontrivial = |c| c.contains("reopen-rich"),
    rule = "Engine A histories on file-backed arenas cut by drop + reopen (map_mut / map_copy / map / map_copy_read_only; capacity same, larger, absent; create or create_new; mapping offset 0..2 pages). After each reopen allocated/discarded/data_offset/min segment/magic/version/free list equal the values at close (for a closed map_copy session: the values saved when it was opened, and the file bytes are unchanged), reserved prefix and every handed-out range byte-identical; the history continues with the shadow map carried over, so C01 disjointness and the C10 policy apply to post-reopen allocations; the histories also contain clear, rewind and discard_freelist (whatever an arena went through before it was closed, it must reopen). Non-trivial = a reopen with >= 1 free segment, >= 1 handed-out range and discarded() > 0",
    quick = 480_000, thorough = 2_000_000,
    assumptions = { let mut v = COMMON_ASSUME.to_vec(); v.push("files live on tmpfs (/dev/shm); durability of sync_all is not observable in-process"); v });

// ------------------------------------------------------------------------------------------ C18
// the ordinary truncate histories plus a rare class of giant arenas: the statement quantifies over n in
// 0..=4*capacity, and for an arena of 1 GiB or more the upper end of that range lies above u32::MAX

pub struct C18;
impl Prop for C18 {
    type Case = CaseA;
    const ID: &'static str = "C18";
    fn strategy(tier: Tier) -> BoxedStrategy<CaseA> {
        use proptest::prelude::*;
        // in-memory backends only (a file on tmpfs would occupy a gigabyte of /dev/shm per case)
        let giant = (
            <C18A as Prop>::strategy(tier),
            prop_oneof![Just(1u32 << 30), Just((1u32 << 30) + 4096), (1u32 << 30)..(1u32 << 30) + 100_000, Just(u32::MAX - 64)],
            any::<bool>(),
            prop::collection::vec(
                prop_oneof![
                    3 => (0u8..8).prop_map(|k| Op::Truncate { n: Size::MaxMinus(k) }),
                    3 => (-4i8..=4).prop_map(|d| Op::Truncate { n: Size::Half(d) }),
                    2 => (-20i8..=20).prop_map(|d| Op::Truncate { n: Size::Cap(d) }),
                    2 => (1u32..200).prop_map(|n| Op::AllocBytes { n: Size::Abs(n), owned: false, via: 0 }),
                    1 => any::<u16>().prop_map(|h| Op::Drop { h }),
                ],
                1..=6,
            ),
        )
            .prop_map(|(mut c, cap, anon, tail)| {
                c.cfg.backend = if anon { Backend::Anon } else { Backend::Vec };
                c.cfg.cap_extra = cap;
                // keep the allocated part small: no fill-to-exhaustion and no huge requests in a 1 GiB arena
                // ... and no operation that moves the cursor across, or zeroes, the whole arena
                c.ops.retain(|o| !matches!(o, Op::Fill { .. } | Op::Reopen { .. } | Op::Truncate { .. } | Op::Rewind { .. } | Op::Clear));
                c.ops.truncate(6);
                // sizes relative to remaining() / capacity() would allocate (zero, copy, compare) a gigabyte
                for o in c.ops.iter_mut() {
                    match o {
                        Op::AllocBytes { n, .. } | Op::AllocAligned { n, .. } => {
                            if !matches!(n, Size::Abs(v) if *v <= 5000) {
                                *n = Size::Abs(17);
                            }
                        }
                        _ => {}
                    }
                }
                c.ops.extend(tail);
                c
            });
        // a giant case zeroes a gigabyte at construction: about a second here, but tens of seconds in a freshly restored
        // sandbox whose memory has never been touched (the per-case watchdog fired there). The quick tier therefore
        // relies on the committed giant replay (replays/C18/97d877dfc176dbfc.json); generation is for the thorough tier
        if tier == Tier::Quick {
            return <C18A as Prop>::strategy(tier);
        }
        prop_oneof![
            20000 => <C18A as Prop>::strategy(tier),
            1 => giant,
        ]
        .boxed()
    }
    fn run(case: &CaseA) -> CaseReport {
        if case.cfg.cap_extra < 1 << 30 {
            return <C18A as Prop>::run(case);
        }
        // a giant case holds a gigabyte or more of resident memory: at most two of them run at any time, whatever the
        // number of worker processes (the sandbox the checks run in may have far less memory than cores x 1 GiB)
        let _slot = GiantSlot::acquire();
        let mut r = <C18A as Prop>::run(case);
        r.classes.insert("giant-arena");
        r
    }
    fn cases(tier: Tier) -> u64 {
        <C18A as Prop>::cases(tier)
    }
    fn rule() -> &'static str {
        concat!("as below, plus - in the thorough tier only; the quick tier replays one committed giant case - one case in 20000 (at most two at a time) on an arena of 1 GiB or more (Vec / anonymous map) with truncate(4*capacity - k), truncate(2^32 + d) and truncate(capacity + d): for max(n, allocated()) above u32::MAX - where capacity(), a u32, cannot report the value the statement asks for - the call must fail and leave the arena exactly as it was. ", "Engine A histories on unsync::Arena with truncate(n), n around allocated()/capacity() and up to 4x capacity, on Vec/anon/file backends, incl. file arenas reopened writable or copy-on-write; oracle: capacity()==max(n, allocated), allocated/discarded/free list/bytes below allocated unchanged, live ranges intact, afterwards an allocation that fits fresh space must succeed. Non-trivial = a truncate while the free list was non-empty and detached live data existed")
    }
    fn assumptions() -> Vec<&'static str> {
        <C18A as Prop>::assumptions()
    }
    fn simplify(c: &CaseA) -> Vec<CaseA> {
        simplify_case_a(c)
    }
}

/// One of two advisory file locks under the scratch directory's parent (released when dropped or when the process dies).
struct GiantSlot(std::fs::File);
impl GiantSlot {
    fn acquire() -> Option<GiantSlot> {
        use std::os::unix::io::AsRawFd;
        let base = if std::path::Path::new("/dev/shm").is_dir() {
            "/dev/shm"
        } else {
            "/tmp"
        };
        let open = |k: u8| {
            std::fs::OpenOptions::new()
                .create(true)
                .truncate(false)
                .write(true)
                .open(format!("{base}/rv-giant-slot-{k}.lock"))
                .ok()
        };
        let (a, b) = (open(0)?, open(1)?);
        unsafe {
            if libc::flock(a.as_raw_fd(), libc::LOCK_EX | libc::LOCK_NB) == 0 {
                return Some(GiantSlot(a));
            }
            if libc::flock(b.as_raw_fd(), libc::LOCK_EX | libc::LOCK_NB) == 0 {
                return Some(GiantSlot(b));
            }
            if libc::flock(a.as_raw_fd(), libc::LOCK_EX) == 0 {
                return Some(GiantSlot(a));
            }
        }
        None
    }
}
impl Drop for GiantSlot {
    fn drop(&mut self) {
        use std::os::unix::io::AsRawFd;
        unsafe { libc::flock(self.0.as_raw_fd(), libc::LOCK_UN) };
    }
}
