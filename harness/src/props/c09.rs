//! C09 - opening validates the file; a refused or read-only open never alters it.

use super::*;
use crate::case::{Backend, Cfg, Fl, Op};
use crate::enga::{base_opts, guard, viol, Mode, Viol, World};
use crate::flavor::{alloc_aligned, alloc_bytes, alloc_typed, Flavor};
use proptest::prelude::*;
use rarena_allocator::{sync, unsync, Allocator, Error};
use serde::{Deserialize, Serialize};
use std::collections::BTreeSet;
use std::path::PathBuf;

#[derive(Clone, Debug, Serialize, Deserialize)]
pub enum Mutation {
    None,
    /// set identification byte `which` (0..8, after the reserved prefix) to `val`
    Byte {
        which: u8,
        val: u8,
    },
    /// cut the file to a length (monotone map onto 0..=len)
    Truncate {
        at: u16,
    },
    /// replace the file by `len` arbitrary bytes
    Replace {
        len: u16,
        seed: u32,
    },
    /// keep the file, open with a different expected freelist kind
    WrongFreelist {
        d: u8,
    },
    /// keep the file, open with a different expected magic version
    WrongMagic {
        d: u16,
    },
}

#[derive(Clone, Debug, Serialize, Deserialize)]
pub enum RoOp {
    AllocBytes {
        n: u16,
        owned: bool,
    },
    AllocAligned {
        ty: u8,
        n: u16,
        owned: bool,
    },
    AllocTyped {
        ty: u8,
        owned: bool,
    },
    Discard,
    SetMinSeg {
        v: u32,
    },
    IncDiscarded {
        v: u32,
    },
    Clear,
    Flush {
        which: u8,
    },
    Truncate {
        n: u16,
    },
    Reader {
        off: u16,
    },
    /// unsafe API, within its safety conditions: no handle is in use, so any rewind is allowed
    Rewind {
        sel: u8,
        d: i8,
    },
    /// unsafe API, within its safety conditions: give back a range that was handed out before the file was closed
    Dealloc {
        which: u8,
    },
}

#[derive(Clone, Debug, Serialize, Deserialize)]
pub enum Kind {
    Refuse {
        m: Mutation,
        mode: u8,
        capsel: u8,
        create: bool,
        /// read-only variants only: file-open flags left set on the Options (see enga::ro_flags)
        #[serde(default)]
        flags: u8,
    },
    ReadOnly {
        mode: u8,
        capsel: u8,
        ops: Vec<RoOp>,
        #[serde(default)]
        flags: u8,
    },
}

#[derive(Clone, Debug, Serialize, Deserialize)]
pub struct CaseC09 {
    pub cfg: Cfg,
    pub pre: Vec<Op>,
    pub stale: u8,
    pub kind: Kind,
    /// refused-open cases: before the mutation, put the file into the state a crash between the mark and the unlink
    /// of a free-list removal leaves behind (size field of the linked segment at this list position set to 0): the
    /// recovery a writable open performs must not run - or must leave no trace - when the open is refused
    #[serde(default)]
    pub crashmark: Option<u8>,
}

pub struct C09;

struct Built {
    path: PathBuf,
    bytes: Vec<u8>,
    capacity: usize,
    allocated: usize,
    /// arena-relative offsets of the free-list nodes, in list order
    nodes: Vec<u32>,
    /// buffer extents of the ranges that were handed out and not released when the file was closed
    live: Vec<(usize, usize)>,
}

/// Build a valid arena file with a short history, leave stale non-zero bytes above the cursor.
fn build<A: Flavor>(
    case: &CaseC09,
    classes: &mut BTreeSet<&'static str>,
) -> Result<Option<Built>, Viol> {
    let mut cfg = case.cfg.clone();
    cfg.backend = Backend::File;
    let Some(mut w) = World::<A>::new(&cfg, Mode::default())? else {
        return Ok(None);
    };
    for (i, op) in case.pre.iter().enumerate() {
        if let Err(v) = w.step(i, op) {
            w.leak();
            return Err(v);
        }
    }
    // stale bytes above the cursor: allocate on top, dirty, release on top
    let n = (case.stale as usize).min(w.a().remaining());
    if n > 0 {
        let a = w.a();
        if let Ok(mut h) = a.alloc_bytes(n as u32) {
            let before = a.allocated();
            let p = h.as_mut_ptr();
            for i in 0..n {
                unsafe { p.add(i).write(0xA5 ^ (i as u8) | 1) };
            }
            drop(h);
            if a.allocated() < before {
                classes.insert("stale-bytes-above-cursor");
            }
        }
    }
    if let Err(v) = w.detach_all() {
        w.leak();
        return Err(v);
    }
    let capacity = w.a().capacity();
    let allocated = w.a().allocated();
    let nodes: Vec<u32> = w.a().fl().nodes.iter().map(|n| n.0).collect();
    let live: Vec<(usize, usize)> =
        w.hs.iter()
            .filter(|h| h.bcap > 0)
            .map(|h| (h.boff, h.bcap))
            .collect();
    let path = w.path.clone().unwrap();
    if let Err(v) = w.close_all() {
        w.leak();
        return Err(v);
    }
    w.path = None;
    w.leak();
    let bytes = std::fs::read(&path).unwrap_or_default();
    Ok(Some(Built {
        path,
        bytes,
        capacity,
        allocated,
        nodes,
        live,
    }))
}

fn run_refuse<A: Flavor>(
    case: &CaseC09,
    m: &Mutation,
    mode: u8,
    capsel: u8,
    create: bool,
    flags: u8,
) -> (BTreeSet<&'static str>, Option<Viol>) {
    let mut classes = BTreeSet::new();
    let b = match build::<A>(case, &mut classes) {
        Ok(Some(b)) => b,
        Ok(None) => return (classes, None),
        Err(v) => return (classes, Some(v)),
    };
    let page = crate::enga::page_size();
    let off = case.cfg.off_pages as usize * page;
    let reserved = case.cfg.reserved as usize;
    let mut opts = base_opts(&case.cfg);
    let prefix = opts.data_offset_unify::<A>();
    // apply the mutation
    let mut file = b.bytes.clone();
    if let (Some(k), false) = (case.crashmark, b.nodes.is_empty()) {
        // node word = size << 32 | next (little endian): zero the size field of one linked segment
        let at = off + b.nodes[(k as usize * b.nodes.len()) >> 8] as usize;
        if at + 8 <= file.len() {
            file[at + 4..at + 8].copy_from_slice(&[0, 0, 0, 0]);
            classes.insert("crash-marked-segment-in-file");
        }
    }
    match m {
        Mutation::None => {}
        Mutation::Byte { which, val } => {
            let i = off + reserved + (*which as usize % 8);
            if i < file.len() {
                file[i] = *val;
            }
        }
        Mutation::Truncate { at } => {
            let l = ((*at as usize) * (file.len() + 1)) >> 16;
            file.truncate(l);
        }
        Mutation::Replace { len, seed } => {
            let l = if len % 3 == 0 {
                *len as usize % (2 * prefix + 2)
            } else {
                off + (*len as usize % 600)
            };
            file = (0..l)
                .map(|i| (seed.wrapping_mul(2654435761).wrapping_add(i as u32 * 40503) >> 11) as u8)
                .collect();
        }
        Mutation::WrongFreelist { d } => {
            let cur = case.cfg.freelist;
            let other = (cur + 1 + d % 2) % 3;
            opts = opts.with_freelist(match other {
                0 => rarena_allocator::Freelist::None,
                1 => rarena_allocator::Freelist::Optimistic,
                _ => rarena_allocator::Freelist::Pessimistic,
            });
        }
        Mutation::WrongMagic { d } => {
            opts = opts.with_magic_version(case.cfg.magic.wrapping_add(1 + d % 1000));
        }
    }
    if std::fs::write(&b.path, &file).is_err() {
        return (classes, None);
    }
    // decode what the file now says
    let want_fl = match opts.freelist() {
        rarena_allocator::Freelist::None => 0u8,
        rarena_allocator::Freelist::Optimistic => 1,
        _ => 2,
    };
    let writable = mode & 3 < 2;
    let too_small = file.len().saturating_sub(off) < prefix || file.len() < off;
    let must_fail = if too_small {
        classes.insert("too-small");
        true
    } else {
        let s = &file[off + reserved..off + reserved + 8];
        let bad_fl_byte = s[1] > 2;
        let fl_mismatch = writable && s[1] != want_fl;
        let bad_text = &s[2..4] != b"al";
        let bad_magic = u16::from_le_bytes([s[4], s[5]]) != opts.magic_version();
        let bad_version = u16::from_le_bytes([s[6], s[7]]) != 0;
        if bad_fl_byte || fl_mismatch {
            classes.insert("bad-freelist");
        }
        if bad_text {
            classes.insert("bad-magic-text");
        }
        if bad_magic {
            classes.insert("bad-magic-version");
        }
        if bad_version {
            classes.insert("bad-version");
        }
        bad_fl_byte || fl_mismatch || bad_text || bad_magic || bad_version
    };
    let old_len = file.len();
    let o = opts.with_read(true).with_offset(off as u64);
    let o = match capsel % 3 {
        0 => o.with_capacity(b.capacity as u32),
        1 => o.with_capacity((b.capacity + 77) as u32),
        _ => o,
    };
    let o = if create && writable {
        o.with_create(true)
    } else {
        o
    };
    let o = if writable {
        o
    } else {
        crate::enga::ro_flags(o, flags)
    };
    if !writable && flags & 31 != 0 {
        classes.insert("ro-open-with-write-flags");
    }
    // bit 2 of the generated mode selects the *_with_path_builder form of the same open
    let pb = mode & 4 != 0;
    if pb {
        classes.insert("via-path-builder");
    }
    let what = crate::enga::OPEN_NAMES[(mode as usize & 3) + 4 * usize::from(pb)];
    let path = b.path.clone();
    let r = guard(what, "C09", || {
        crate::enga::open_variant::<A>(o, mode & 3, pb, &path)
    });
    let viol = (|| -> Result<(), Viol> {
        let r = r?;
        let failed = r.is_err();
        let err_text = r.as_ref().err().map(|e| e.to_string()).unwrap_or_default();
        drop(r);
        let now = std::fs::read(&b.path).unwrap_or_default();
        if must_fail && !failed {
            return Err(viol!("C09", "accepted-invalid-file", "{what} (capsel {capsel}, create {create}) accepted a file that must be refused: mutation {m:?}, file len {old_len}, offset {off}, prefix {prefix}"));
        }
        if failed {
            classes.insert("open-refused");
            if now.len() < old_len || now[..old_len] != file[..] {
                let first = (0..old_len.min(now.len())).find(|&i| now[i] != file[i]);
                return Err(viol!("C09", "refused-open-altered-file", "{what} (capsel {capsel}) failed ({err_text}) but changed the file: len {old_len} -> {}, first differing byte {:?} (stored cursor {}, capacity {})", now.len(), first, b.allocated, b.capacity));
            }
            if now.len() != old_len {
                classes.insert("refused-open-grew-file");
            }
        }
        Ok(())
    })()
    .err();
    let _ = std::fs::remove_file(&b.path);
    (classes, viol)
}

fn run_readonly<A: Flavor>(
    case: &CaseC09,
    mode: u8,
    capsel: u8,
    ops: &[RoOp],
    flags: u8,
) -> (BTreeSet<&'static str>, Option<Viol>) {
    let mut classes = BTreeSet::new();
    let b = match build::<A>(case, &mut classes) {
        Ok(Some(b)) => b,
        Ok(None) => return (classes, None),
        Err(v) => return (classes, Some(v)),
    };
    let page = crate::enga::page_size();
    let off = case.cfg.off_pages as usize * page;
    let opts = base_opts(&case.cfg);
    let o = opts.with_read(true).with_offset(off as u64);
    let o = match capsel % 3 {
        0 => o.with_capacity(b.capacity as u32),
        1 => o.with_capacity((b.capacity + 77) as u32),
        _ => o,
    };
    let o = crate::enga::ro_flags(o, flags);
    if flags & 31 != 0 {
        classes.insert("ro-open-with-write-flags");
    }
    let path = b.path.clone();
    // bit 1 of the generated mode selects the *_with_path_builder form
    let pb = mode & 2 != 0;
    if pb {
        classes.insert("via-path-builder");
    }
    let what = crate::enga::OPEN_NAMES[2 + (mode as usize & 1) + 4 * usize::from(pb)];
    let viol = (|| -> Result<(), Viol> {
        let r = guard(what, "C05", || {
            crate::enga::open_variant::<A>(o, 2 + (mode & 1), pb, &path)
        })?;
        let mut arena = match r {
            Ok(a) => a,
            Err(e) => {
                return Err(viol!(
                    "C05",
                    "reopen-failed",
                    "{what} of a valid file failed: {e}"
                ))
            }
        };
        if !arena.read_only() {
            return Err(viol!(
                "C09",
                "ro-flag",
                "{what} returned an arena with read_only()=false"
            ));
        }
        let snap = |a: &A| {
            (
                a.allocated(),
                a.discarded(),
                a.remaining(),
                a.capacity(),
                a.minimum_segment_size(),
                a.refs(),
                a.fl().nodes,
            )
        };
        let mut mutators: BTreeSet<&'static str> = BTreeSet::new();
        for (i, op) in ops.iter().enumerate() {
            let pre = snap(&arena);
            let mem_before = arena.memory().to_vec();
            let ar: &'static A = unsafe { &*(&arena as *const A) };
            // a documented panic must mention read-only
            let mut call = |name: &'static str,
                            f: &mut dyn FnMut() -> Result<bool, String>|
             -> Result<(), Viol> {
                mutators.insert(name);
                match std::panic::catch_unwind(std::panic::AssertUnwindSafe(|| f())) {
                    Ok(Ok(_)) => Ok(()),
                    Ok(Err(e)) => Err(viol!(
                        "C09",
                        format!("ro-{name}"),
                        "op {i} {op:?} on a read-only arena: {e}"
                    )),
                    Err(p) => {
                        let m = p
                            .downcast_ref::<&str>()
                            .map(|s| s.to_string())
                            .or_else(|| p.downcast_ref::<String>().cloned())
                            .unwrap_or_default();
                        if m.to_lowercase().contains("read-only") {
                            Ok(())
                        } else {
                            Err(viol!(
                                "C09",
                                format!("ro-{name}-panic"),
                                "op {i} {op:?} on a read-only arena panicked: {m}"
                            ))
                        }
                    }
                }
            };
            match op {
                RoOp::AllocBytes { n, owned } => call("alloc_bytes", &mut || match alloc_bytes(
                    ar, *n as u32, *owned,
                ) {
                    Err(Error::ReadOnly) => Ok(true),
                    Ok(h) if h.capacity() == 0 => Ok(true),
                    Ok(h) => Err(format!("returned a handle of capacity {}", h.capacity())),
                    Err(e) => Err(format!("returned {e:?}")),
                })?,
                RoOp::AllocAligned { ty, n, owned } => {
                    call("alloc_aligned_bytes", &mut || match alloc_aligned(
                        ar,
                        *ty as usize % crate::types::ntypes(),
                        *n as u32,
                        *owned,
                    ) {
                        Err(Error::ReadOnly) => Ok(true),
                        Ok(h) if h.capacity() == 0 => Ok(true),
                        Ok(h) => Err(format!("returned a handle of capacity {}", h.capacity())),
                        Err(e) => Err(format!("returned {e:?}")),
                    })?
                }
                RoOp::AllocTyped { ty, owned } => call("alloc", &mut || match alloc_typed(
                    ar,
                    *ty as usize % crate::types::ntypes(),
                    *owned,
                ) {
                    Err(Error::ReadOnly) => Ok(true),
                    Ok(mut h) if h.capacity() == 0 => {
                        h.detach();
                        Ok(true)
                    }
                    Ok(h) => Err(format!("returned a handle of capacity {}", h.capacity())),
                    Err(e) => Err(format!("returned {e:?}")),
                })?,
                RoOp::Discard => call("discard_freelist", &mut || match ar.discard_freelist() {
                    Err(Error::ReadOnly) => Ok(true),
                    other => Err(format!("returned {other:?}")),
                })?,
                RoOp::SetMinSeg { v } => call("set_minimum_segment_size", &mut || {
                    ar.set_minimum_segment_size(*v);
                    Ok(true)
                })?,
                RoOp::IncDiscarded { v } => call("increase_discarded", &mut || {
                    ar.increase_discarded(*v);
                    Ok(true)
                })?,
                RoOp::Clear => call("clear", &mut || match unsafe { ar.clear() } {
                    Err(Error::ReadOnly) => Ok(true),
                    other => Err(format!("returned {other:?}")),
                })?,
                RoOp::Flush { which } => {
                    let r = match which % 6 {
                        0 => ar.flush(),
                        1 => ar.flush_async(),
                        2 => ar.flush_range(0, ar.allocated()),
                        3 => ar.flush_header(),
                        4 => ar.flush_async_header(),
                        _ => ar.flush_header_and_range(ar.data_offset(), 1),
                    };
                    let _ = r;
                }
                RoOp::Truncate { n } => {
                    let nn = *n as usize;
                    let r = std::panic::catch_unwind(std::panic::AssertUnwindSafe(|| {
                        arena.truncate_(nn)
                    }));
                    match r {
                        Ok(None) => {}
                        Ok(Some(Err(_))) => {
                            mutators.insert("truncate");
                        }
                        Ok(Some(Ok(()))) => {
                            return Err(viol!(
                                "C09",
                                "ro-truncate",
                                "op {i}: truncate({nn}) succeeded on a read-only arena"
                            ))
                        }
                        Err(_) => {
                            return Err(viol!(
                                "C09",
                                "ro-truncate-panic",
                                "op {i}: truncate({nn}) panicked on a read-only arena"
                            ))
                        }
                    }
                }
                RoOp::Rewind { sel, d } => {
                    use rarena_allocator::ArenaPosition;
                    let (al, cp, dof) = (
                        arena.allocated() as i64,
                        arena.capacity() as i64,
                        arena.data_offset() as i64,
                    );
                    let pos = match sel % 6 {
                        0 => ArenaPosition::Start((dof + *d as i64).max(0) as u32),
                        1 => ArenaPosition::Start((al + *d as i64).max(0) as u32),
                        2 => ArenaPosition::End((cp - al + *d as i64).max(0) as u32),
                        3 => ArenaPosition::Current(*d as i64),
                        4 => ArenaPosition::Current(0),
                        _ => ArenaPosition::Start(0),
                    };
                    call("rewind", &mut || {
                        unsafe { ar.rewind(pos) };
                        Ok(true)
                    })?;
                }
                RoOp::Dealloc { which } => {
                    if !b.live.is_empty() {
                        let (o, l) = b.live[(*which as usize * b.live.len()) >> 8];
                        call("dealloc", &mut || {
                            let _ = unsafe { ar.dealloc(o as u32, l as u32) };
                            Ok(true)
                        })?;
                    }
                }
                RoOp::Reader { off } => {
                    let o = *off as usize % (arena.capacity() + 8);
                    let _ = arena.get_u8(o);
                    let _ = arena.get_u32_le(o);
                    let _ = arena.get_u64_varint(o);
                    let _ = arena.reserved_slice().len();
                    let _ = arena.allocated_memory().len();
                }
            }
            let post = snap(&arena);
            if post != pre {
                return Err(viol!(
                    "C09",
                    "ro-state-changed",
                    "op {i} {op:?} changed a read-only arena: {pre:?} -> {post:?}"
                ));
            }
            if arena.memory() != &mem_before[..] {
                return Err(viol!(
                    "C09",
                    "ro-memory-changed",
                    "op {i} {op:?} changed the memory of a read-only arena"
                ));
            }
        }
        if mutators.len() >= 3 {
            classes.insert("ro-3-mutators");
        }
        classes.insert("ro-session");
        drop(arena);
        let now = std::fs::read(&b.path).unwrap_or_default();
        if now != b.bytes {
            return Err(viol!(
                "C09",
                "ro-session-altered-file",
                "file differs after a read-only session (len {} -> {})",
                b.bytes.len(),
                now.len()
            ));
        }
        Ok(())
    })()
    .err();
    let _ = std::fs::remove_file(&b.path);
    (classes, viol)
}

fn c09_run_inner(case: &CaseC09) -> CaseReport {
    let (classes, viol) = match (&case.kind, case.cfg.flavor) {
        (
            Kind::Refuse {
                m,
                mode,
                capsel,
                create,
                flags,
            },
            Fl::Sync,
        ) => run_refuse::<sync::Arena>(case, m, *mode, *capsel, *create, *flags),
        (
            Kind::Refuse {
                m,
                mode,
                capsel,
                create,
                flags,
            },
            Fl::Unsync,
        ) => run_refuse::<unsync::Arena>(case, m, *mode, *capsel, *create, *flags),
        (
            Kind::ReadOnly {
                mode,
                capsel,
                ops,
                flags,
            },
            Fl::Sync,
        ) => run_readonly::<sync::Arena>(case, *mode, *capsel, ops, *flags),
        (
            Kind::ReadOnly {
                mode,
                capsel,
                ops,
                flags,
            },
            Fl::Unsync,
        ) => run_readonly::<unsync::Arena>(case, *mode, *capsel, ops, *flags),
    };
    let nontrivial = (classes.contains("open-refused")
        && classes.contains("stale-bytes-above-cursor"))
        || classes.contains("ro-3-mutators");
    CaseReport {
        nontrivial,
        classes,
        viol,
    }
}

impl Prop for C09 {
    type Case = CaseC09;
    const ID: &'static str = "C09";
    fn strategy(tier: Tier) -> BoxedStrategy<CaseC09> {
        let mut p = Profile::base();
        p.backends = FILE_ONLY;
        p.caps = SMALL_CAPS;
        p.max_ops = if tier == Tier::Thorough { 24 } else { 10 };
        p.prelude_pct = 50;
        p.w_drop = 35;
        p.w_incdisc = 2;
        let nt = crate::types::ntypes() as u8;
        let mutation = prop_oneof![
            1 => Just(Mutation::None),
            6 => (0u8..8, prop_oneof![any::<u8>(), prop::sample::select(vec![0u8, 1, 2, 3, b'a', b'l', 255])]).prop_map(|(which, val)| Mutation::Byte { which, val }),
            4 => any::<u16>().prop_map(|at| Mutation::Truncate { at }),
            2 => (any::<u16>(), any::<u32>()).prop_map(|(len, seed)| Mutation::Replace { len, seed }),
            3 => any::<u8>().prop_map(|d| Mutation::WrongFreelist { d }),
            3 => any::<u16>().prop_map(|d| Mutation::WrongMagic { d }),
        ];
        let roop = prop_oneof![
            4 => (prop_oneof![Just(0u16), 1u16..200], any::<bool>()).prop_map(|(n, owned)| RoOp::AllocBytes { n, owned }),
            2 => (0..nt, 0u16..64, any::<bool>()).prop_map(|(ty, n, owned)| RoOp::AllocAligned { ty, n, owned }),
            3 => (0..nt, any::<bool>()).prop_map(|(ty, owned)| RoOp::AllocTyped { ty, owned }),
            2 => Just(RoOp::Discard),
            3 => (0u32..200).prop_map(|v| RoOp::SetMinSeg { v }),
            3 => (0u32..5000).prop_map(|v| RoOp::IncDiscarded { v }),
            2 => Just(RoOp::Clear),
            2 => (0u8..6).prop_map(|which| RoOp::Flush { which }),
            2 => any::<u16>().prop_map(|n| RoOp::Truncate { n }),
            2 => any::<u16>().prop_map(|off| RoOp::Reader { off }),
            2 => (0u8..6, -3i8..=3).prop_map(|(sel, d)| RoOp::Rewind { sel, d }),
            2 => any::<u8>().prop_map(|which| RoOp::Dealloc { which }),
        ];
        let kind = prop_oneof![
            3 => (mutation, 0u8..8, 0u8..3, any::<bool>(), prop_oneof![2 => Just(0u8), 1 => 0u8..32]).prop_map(|(m, mode, capsel, create, flags)| Kind::Refuse { m, mode, capsel, create, flags }),
            2 => (0u8..4, 0u8..3, prop::collection::vec(roop, 1..=8), prop_oneof![2 => Just(0u8), 1 => 0u8..32]).prop_map(|(mode, capsel, ops, flags)| Kind::ReadOnly { mode, capsel, ops, flags }),
        ];
        (
            case_strategy(&p),
            prop_oneof![1 => Just(0u8), 4 => 1u8..=120],
            kind,
            prop_oneof![3 => Just(None), 1 => any::<u8>().prop_map(Some)],
        )
            .prop_map(|(c, stale, kind, crashmark)| CaseC09 {
                cfg: c.cfg,
                pre: c.ops,
                stale,
                kind,
                crashmark,
            })
            .boxed()
    }
    fn run(case: &CaseC09) -> CaseReport {
        crate::enga::set_owner(Some("C09"));
        let r = c09_run_inner(case);
        crate::enga::set_owner(None);
        r
    }
    fn cases(tier: Tier) -> u64 {
        scale(tier, 600_000, 4_000_000)
    }
    fn rule() -> &'static str {
        "a valid arena file produced by a short Engine-A history (with stale non-zero bytes left above the cursor by an on-top release), then either (A) one mutation - any of the eight identification bytes to any value, truncation to any length, replacement by arbitrary bytes, or a different expected freelist kind / magic version, in one case in four on top of the crash state of the free list (a linked segment whose size field is 0, which a successful writable open repairs) - opened through map_mut / map_copy / map / map_copy_read_only or their *_with_path_builder forms with capacity same / larger / absent and with or without create: the open must fail whenever the decoded fields (magic text, magic version, format version, freelist byte, expected freelist for writable opens, header-prefix size) say so, and after every failed open the first old_len bytes of the file are identical; or (B) a read-only open (map / map_copy_read_only) followed by 1..8 calls over the safe mutating surface (all alloc flavours incl. zero-size, discard_freelist, set_minimum_segment_size, increase_discarded, clear, flush*, truncate, readers - and the two unsafe mutators that have no error to return, rewind and dealloc of a range handed out before the close, within their safety conditions): each returns ReadOnly / PermissionDenied, panics with a read-only message, or returns with state and memory unchanged; no signal; file identical afterwards. Non-trivial = a refused open on a file with stale bytes above the cursor, or a read-only session with >= 3 distinct mutators"
    }
    fn assumptions() -> Vec<&'static str> {
        vec![
            "for WRITABLE opens with_truncate(true), create_new on an existing path and remove_on_drop(true) are excluded: the caller asked for the change / the OS refuses first / the docs say the file is deleted; for READ-ONLY opens the file-open flags truncate / append / create / create_new / write may be left set on the Options in any combination (the implementation clears them all) and the file must still be left alone",
            "growth of the file by a refused open that requested a larger capacity is reported (class refused-open-grew-file), not judged: the statement speaks of the bytes that were in the file",
        ]
    }
    fn simplify(c: &CaseC09) -> Vec<CaseC09> {
        let mut out: Vec<CaseC09> = simplify_case_a(&CaseA {
            cfg: c.cfg.clone(),
            ops: c.pre.clone(),
        })
        .into_iter()
        .map(|x| CaseC09 {
            cfg: c.cfg.clone(),
            pre: x.ops,
            stale: c.stale,
            kind: c.kind.clone(),
            crashmark: c.crashmark,
        })
        .collect();
        if let Kind::ReadOnly {
            mode,
            capsel,
            ops,
            flags,
        } = &c.kind
        {
            for i in 0..ops.len() {
                let mut o = ops.clone();
                o.remove(i);
                out.push(CaseC09 {
                    cfg: c.cfg.clone(),
                    pre: c.pre.clone(),
                    stale: c.stale,
                    kind: Kind::ReadOnly {
                        mode: *mode,
                        capsel: *capsel,
                        ops: o,
                        flags: *flags,
                    },
                    crashmark: c.crashmark,
                });
            }
        }
        out
    }
}
