//! C15 (arena-level readers) and C19 (checksum).

use super::*;
use crate::enga::{guard, viol, Viol};
use crate::flavor::Flavor;
use proptest::prelude::*;
use rarena_allocator::checksum::{BuildChecksumer, Checksumer, Crc32};
use rarena_allocator::{sync, unsync, Allocator, ArenaPosition, Buffer, Error, Options};
use serde::{Deserialize, Serialize};
use std::collections::BTreeSet;

fn content_byte(seed: u32, i: usize) -> u8 {
    let x = (seed as u64 ^ 0xD6E8_FEB8_6659_FD93)
        .wrapping_mul(0x9E37_79B9_7F4A_7C15)
        .wrapping_add((i as u64).wrapping_mul(0xC2B2_AE3D_27D4_EB4F));
    let x = x ^ (x >> 29);
    let b = (x >> 16) as u8;
    // make continuation bytes (high bit set) frequent so that varints run into the allocated mark
    match (x >> 40) % 4 {
        0 => b | 0x80,
        1 => b & 0x7f,
        _ => b,
    }
}

// ------------------------------------------------------------------------------------------ C15

#[derive(Clone, Copy, Debug, Serialize, Deserialize)]
pub enum OffSpec {
    Abs(u16),
    /// allocated() + d
    NearAlloc(i8),
    /// capacity() + d
    NearCap(i8),
    /// usize::MAX - k
    MaxMinus(u8),
    /// i.e. around 2^32 and 2^63
    Big(u8),
}

#[derive(Clone, Copy, Debug, Serialize, Deserialize)]
pub struct Query {
    /// 0 u8, 1 i8, 2.. fixed (u16,u32,u64,u128,i16,i32,i64,i128) x (be, le), then varints
    pub reader: u8,
    pub off: OffSpec,
}

#[derive(Clone, Debug, Serialize, Deserialize)]
pub struct CaseC15 {
    pub sync: bool,
    pub unify: bool,
    pub reserved: u8,
    pub extra: u16,
    pub seed: u32,
    /// where the cursor is put back to, as a fraction of the filled area (monotone map)
    pub mark: u16,
    pub queries: Vec<Query>,
    /// file variant: the arena lives in a file; after the fill and the rewind it is closed and reopened (0 map_mut,
    /// 1 map_copy, 2 map, 3 map_copy_read_only by the low two bits) with a capacity option BELOW the cursor stored in the
    /// file (position by the upper bits): the open must be refused or yield an arena on which the statement holds
    #[serde(default)]
    pub shrink: Option<u16>,
    /// unsync only: after the rewind the arena is resized (truncate to a size by this value, monotone over
    /// 0..=2*capacity) before the readers are queried - "all arena fill states" includes the ones a resize leaves behind
    #[serde(default)]
    pub trunc: Option<u16>,
    /// the arena lives in a file mapped at an offset of 1 or 2 pages (map_mut): readers and slice accessors are about
    /// the mapping, wherever in the file it starts - also after a resize re-made it
    #[serde(default)]
    pub fileoff: Option<u8>,
}

const NREADERS: u8 = 2 + 16 + 8;

pub struct C15;

fn ref_varint_u(buf: &[u8], bits: u32) -> Option<(usize, u128)> {
    // plain LEB128, value must fit in `bits`
    let mut v: u128 = 0;
    let mut shift = 0u32;
    for (i, b) in buf.iter().enumerate() {
        let low = (*b & 0x7f) as u128;
        if shift >= 128
            || (shift > 0
                && low
                    .checked_shl(shift)
                    .map(|x| x >> shift != low)
                    .unwrap_or(true))
        {
            return None;
        }
        v |= low << shift;
        if b & 0x80 == 0 {
            if bits < 128 && v >> bits != 0 {
                return None;
            }
            return Some((i + 1, v));
        }
        shift += 7;
    }
    None
}

fn run_c15<A: Flavor>(case: &CaseC15) -> CaseReport {
    let mut classes: BTreeSet<&'static str> = BTreeSet::new();
    let opts = Options::new()
        .with_unify(case.unify)
        .with_reserved(case.reserved as u32)
        .with_freelist(rarena_allocator::Freelist::None);
    let file = case.fileoff.is_some() && case.shrink.is_none();
    let d = if case.unify || file {
        opts.data_offset_unify::<A>()
    } else {
        opts.data_offset::<A>()
    };
    let cap = d + 1 + (case.extra as usize % 300);
    if let Some(sel) = case.shrink {
        return run_c15_shrunk::<A>(case, sel, classes);
    }
    let mut c15_path = None;
    let made = if let Some(k) = case.fileoff {
        let p = crate::enga::fresh_path();
        let _ = std::fs::remove_file(&p);
        let off = (1 + (k as u64 % 2)) * crate::enga::page_size() as u64;
        let r = unsafe { opts.with_capacity(cap as u32).with_create_new(true).with_read(true).with_write(true).with_offset(off).map_mut::<A, _>(&p) };
        c15_path = Some(p);
        classes.insert("file-mapped-at-an-offset");
        r.ok()
    } else {
        opts.with_capacity(cap as u32).alloc::<A>().ok()
    };
    let Some(mut arena) = made else {
        if let Some(p) = c15_path {
            let _ = std::fs::remove_file(p);
        }
        return CaseReport {
            nontrivial: false,
            classes,
            viol: None,
        };
    };
    let mut cap = cap;
    let res = (|| -> Result<(), Viol> {
        // fill everything with content, then move the cursor back so that live-looking bytes lie above it
        {
            let mut h = arena
                .alloc_bytes(arena.remaining() as u32)
                .map_err(|e| viol!("C04", "fill-failed", "{e:?}"))?;
            let n = Buffer::capacity(&h);
            let p = h.as_mut_ptr();
            for i in 0..n {
                unsafe { p.add(i).write(content_byte(case.seed, i)) };
            }
            unsafe { Buffer::detach(&mut h) };
        }
        let span = cap - d;
        let mark = d + ((case.mark as usize * (span + 1)) >> 16);
        unsafe { arena.rewind(ArenaPosition::Start(mark as u32)) };
        let allocated = arena.allocated();
        if allocated != mark {
            return Err(viol!(
                "C17",
                "rewind-target",
                "rewind(Start({mark})) left the cursor at {allocated}"
            ));
        }
        if let (Some(t), false) = (case.trunc, A::SYNC) {
            let n = (t as usize * (2 * cap + 1)) >> 16;
            let r = guard("truncate", "C18", || arena.truncate_(n))?;
            if let Some(Err(e)) = r {
                return Err(viol!("C18", "truncate-failed", "truncate({n}) failed: {e:?}"));
            }
            // what truncate promises (C18); the slice lengths and the readers are judged against it below
            cap = n.max(mark);
            classes.insert(if mark == d { "resized-while-empty" } else { "resized" });
        }
        let allocated = arena.allocated();
        if allocated != mark {
            return Err(viol!("C15|C18", "cursor-after-resize", "truncate with the cursor at {mark} (data_offset {d}) left allocated()={allocated}: allocated_memory() / data() no longer have the lengths allocated() / allocated() - data_offset() of the arena that was resized"));
        }
        let mem = arena.memory().to_vec();
        if mem.len() != cap
            || arena.allocated_memory().len() != allocated
            || arena.data().len() != allocated - arena.data_offset()
        {
            return Err(viol!("C15", "slice-lengths", "memory()/allocated_memory()/data() lengths {} {} {} with capacity {cap} allocated {allocated} data_offset {}", mem.len(), arena.allocated_memory().len(), arena.data().len(), arena.data_offset()));
        }
        if allocated < cap && mem[allocated..].iter().any(|b| *b != 0) {
            classes.insert("nonzero-above-mark");
        }
        for (qi, q) in case.queries.iter().enumerate() {
            let o: usize = match q.off {
                OffSpec::Abs(v) => v as usize % (cap + 17),
                OffSpec::NearAlloc(x) => (allocated as i64 + x as i64).max(0) as usize,
                OffSpec::NearCap(x) => (cap as i64 + x as i64).max(0) as usize,
                OffSpec::MaxMinus(k) => usize::MAX - k as usize,
                OffSpec::Big(k) => match k % 4 {
                    0 => (1usize << 32) - 1 - (k / 4) as usize,
                    1 => (1usize << 32) + (k / 4) as usize,
                    2 => (1usize << 63) - 1 - (k / 4) as usize,
                    _ => (1usize << 63) + (k / 4) as usize,
                },
            };
            let r = q.reader % NREADERS;
            if o > cap {
                classes.insert("offset-beyond-capacity");
            }
            if o > usize::MAX - 32 {
                classes.insert("offset-usize-extreme");
            }
            macro_rules! fixed {
                ($ty:ty, $get:ident, $from:ident, $name:expr) => {{
                    const N: usize = std::mem::size_of::<$ty>();
                    let got = guard($name, "C15", || arena.$get(o))?;
                    let fits = (o as u128) + (N as u128) <= allocated as u128;
                    if o + 0 <= allocated && (o as u128 + N as u128) > allocated as u128 && o as u128 + N as u128 <= cap as u128 {
                        classes.insert("straddles-mark");
                    }
                    match got {
                        Ok(v) => {
                            if !fits {
                                return Err(viol!("C15", "read-beyond-allocated", "query {qi}: {}({o}) returned {v:?} with allocated()={allocated}", $name));
                            }
                            let want = <$ty>::$from(mem[o..o + N].try_into().unwrap());
                            if v != want {
                                return Err(viol!("C15", "wrong-value", "query {qi}: {}({o}) returned {v:?}, bytes decode to {want:?}", $name));
                            }
                        }
                        Err(Error::OutOfBounds { .. }) => {
                            if fits {
                                return Err(viol!("C15", "refused-in-bounds", "query {qi}: {}({o}) returned OutOfBounds with allocated()={allocated}", $name));
                            }
                        }
                        Err(e) => return Err(viol!("C15", "error-kind", "query {qi}: {}({o}) returned {e:?}", $name)),
                    }
                }};
            }
            macro_rules! varint {
                ($ty:ty, $get:ident, $dec:ident, $max:expr, $bits:expr, $signed:expr, $name:expr) => {{
                    let got = guard($name, "C15", || arena.$get(o))?;
                    if o >= allocated {
                        match got {
                            Err(Error::OutOfBounds { .. }) => {}
                            other => return Err(viol!("C15", "varint-beyond-allocated", "query {qi}: {}({o}) returned {other:?} with allocated()={allocated}", $name)),
                        }
                    } else {
                        let end = allocated.min(o + $max);
                        let slice = &mem[o..end];
                        let reference = dbutils_decode::$dec(slice);
                        // does a terminator exist only above the mark?
                        if slice.iter().all(|b| b & 0x80 != 0) && end == allocated {
                            classes.insert("varint-runs-into-mark");
                        }
                        match (got, reference) {
                            (Ok((n, v)), Ok((rn, rv))) => {
                                if n != rn || v != rv {
                                    return Err(viol!("C15", "varint-value", "query {qi}: {}({o}) returned ({n}, {v:?}), the bytes below allocated() decode to ({rn}, {rv:?})", $name));
                                }
                                if n > allocated - o {
                                    return Err(viol!("C15", "varint-consumed-beyond", "query {qi}: {}({o}) consumed {n} bytes, only {} below allocated()", $name, allocated - o));
                                }
                                if !$signed {
                                    if let Some((xn, xv)) = ref_varint_u(slice, $bits) {
                                        if xn != n || xv != v as u128 {
                                            return Err(viol!("C15", "varint-value", "query {qi}: {}({o}) returned ({n}, {v:?}), independent LEB128 reference says ({xn}, {xv})", $name));
                                        }
                                    }
                                }
                            }
                            (Err(Error::DecodeVarintError(_)), Err(_)) => {}
                            (g, r) => return Err(viol!("C15", "varint-result", "query {qi}: {}({o}) returned {g:?}; decoding memory[{o}..{end}] (allocated {allocated}) gives {r:?}", $name)),
                        }
                    }
                }};
            }
            match r {
                0 => fixed!(u8, get_u8, from_ne_bytes, "get_u8"),
                1 => fixed!(i8, get_i8, from_ne_bytes, "get_i8"),
                2 => fixed!(u16, get_u16_be, from_be_bytes, "get_u16_be"),
                3 => fixed!(u16, get_u16_le, from_le_bytes, "get_u16_le"),
                4 => fixed!(u32, get_u32_be, from_be_bytes, "get_u32_be"),
                5 => fixed!(u32, get_u32_le, from_le_bytes, "get_u32_le"),
                6 => fixed!(u64, get_u64_be, from_be_bytes, "get_u64_be"),
                7 => fixed!(u64, get_u64_le, from_le_bytes, "get_u64_le"),
                8 => fixed!(u128, get_u128_be, from_be_bytes, "get_u128_be"),
                9 => fixed!(u128, get_u128_le, from_le_bytes, "get_u128_le"),
                10 => fixed!(i16, get_i16_be, from_be_bytes, "get_i16_be"),
                11 => fixed!(i16, get_i16_le, from_le_bytes, "get_i16_le"),
                12 => fixed!(i32, get_i32_be, from_be_bytes, "get_i32_be"),
                13 => fixed!(i32, get_i32_le, from_le_bytes, "get_i32_le"),
                14 => fixed!(i64, get_i64_be, from_be_bytes, "get_i64_be"),
                15 => fixed!(i64, get_i64_le, from_le_bytes, "get_i64_le"),
                16 => fixed!(i128, get_i128_be, from_be_bytes, "get_i128_be"),
                17 => fixed!(i128, get_i128_le, from_le_bytes, "get_i128_le"),
                18 => varint!(
                    u16,
                    get_u16_varint,
                    decode_u16_varint,
                    3,
                    16,
                    false,
                    "get_u16_varint"
                ),
                19 => varint!(
                    u32,
                    get_u32_varint,
                    decode_u32_varint,
                    5,
                    32,
                    false,
                    "get_u32_varint"
                ),
                20 => varint!(
                    u64,
                    get_u64_varint,
                    decode_u64_varint,
                    10,
                    64,
                    false,
                    "get_u64_varint"
                ),
                21 => varint!(
                    u128,
                    get_u128_varint,
                    decode_u128_varint,
                    19,
                    128,
                    false,
                    "get_u128_varint"
                ),
                22 => varint!(
                    i16,
                    get_i16_varint,
                    decode_i16_varint,
                    3,
                    16,
                    true,
                    "get_i16_varint"
                ),
                23 => varint!(
                    i32,
                    get_i32_varint,
                    decode_i32_varint,
                    5,
                    32,
                    true,
                    "get_i32_varint"
                ),
                24 => varint!(
                    i64,
                    get_i64_varint,
                    decode_i64_varint,
                    10,
                    64,
                    true,
                    "get_i64_varint"
                ),
                _ => varint!(
                    i128,
                    get_i128_varint,
                    decode_i128_varint,
                    19,
                    128,
                    true,
                    "get_i128_varint"
                ),
            }
        }
        Ok(())
    })();
    drop(arena);
    if let Some(p) = c15_path {
        let _ = std::fs::remove_file(p);
    }
    let nontrivial = classes.contains("nonzero-above-mark")
        && (classes.contains("straddles-mark")
            || classes.contains("varint-runs-into-mark")
            || classes.contains("offset-usize-extreme"));
    CaseReport {
        nontrivial,
        classes,
        viol: res.err(),
    }
}

/// File variant of C15: fill, rewind to the mark, close; reopen with a capacity option below the stored cursor.
fn run_c15_shrunk<A: Flavor>(
    case: &CaseC15,
    sel: u16,
    mut classes: BTreeSet<&'static str>,
) -> CaseReport {
    let opts = Options::new()
        .with_reserved(case.reserved as u32)
        .with_freelist(rarena_allocator::Freelist::None);
    let d = opts.data_offset_unify::<A>();
    let cap = d + 1 + (case.extra as usize % 300);
    let path = crate::enga::fresh_path();
    let _ = std::fs::remove_file(&path);
    let res = (|| -> Result<(), Viol> {
        let arena: A = match unsafe {
            opts.with_capacity(cap as u32)
                .with_create_new(true)
                .with_read(true)
                .with_write(true)
                .map_mut::<A, _>(&path)
        } {
            Ok(a) => a,
            Err(_) => return Ok(()),
        };
        {
            let mut h = arena
                .alloc_bytes(arena.remaining() as u32)
                .map_err(|e| viol!("C04", "fill-failed", "{e:?}"))?;
            let n = Buffer::capacity(&h);
            let p = h.as_mut_ptr();
            for i in 0..n {
                unsafe { p.add(i).write(content_byte(case.seed, i)) };
            }
            unsafe { Buffer::detach(&mut h) };
        }
        let span = cap - d;
        let mark = d + ((case.mark as usize * (span + 1)) >> 16);
        unsafe { arena.rewind(ArenaPosition::Start(mark as u32)) };
        let stored = arena.allocated();
        drop(arena);
        if stored <= d + 1 {
            return Ok(());
        }
        // a capacity in [data_offset, stored cursor): enough for the header, too small for the allocated part
        let small = d + ((sel as usize >> 2) % (stored - d));
        let mode = (sel & 3) as u8;
        let o = opts.with_read(true).with_capacity(small as u32);
        let what = crate::enga::OPEN_NAMES[mode as usize];
        let r = guard(what, "C15", || {
            crate::enga::open_variant::<A>(o, mode, false, &path)
        })?;
        let arena = match r {
            Err(_) => {
                classes.insert("reopen-below-cursor-refused");
                return Ok(());
            }
            Ok(a) => a,
        };
        classes.insert("reopen-below-cursor-accepted");
        let (al, cp, ml, aml, dl) = (
            arena.allocated(),
            arena.capacity(),
            arena.memory().len(),
            arena.allocated_memory().len(),
            arena.data().len(),
        );
        if al > cp || aml > ml || dl > ml {
            // do not touch the slices: they reach past the mapping
            std::mem::forget(arena);
            return Err(viol!("C15", "cursor-beyond-memory", "{what} with capacity {small} of a file whose stored cursor is {stored}: allocated()={al} capacity()={cp}; allocated_memory().len()={aml} and data().len()={dl} but memory().len()={ml}: offsets in [{ml}, {al}) lie below allocated() and outside the arena's memory (get_u8({ml}) reads past the mapping)"));
        }
        // accepted and consistent: every reader at the end of memory must behave
        for o in [ml.saturating_sub(1), ml, ml + 1, al.saturating_sub(1), al] {
            let got = guard("get_u8", "C15", || arena.get_u8(o))?;
            if got.is_ok() != (o < al) {
                return Err(viol!("C15", "read-beyond-allocated", "get_u8({o}) = {got:?} with allocated()={al} after a reopen with a smaller capacity"));
            }
        }
        Ok(())
    })();
    let _ = std::fs::remove_file(&path);
    CaseReport {
        nontrivial: classes.contains("reopen-below-cursor-refused")
            || classes.contains("reopen-below-cursor-accepted"),
        classes,
        viol: res.err(),
    }
}

mod dbutils_decode {
    // the decoder rarena itself delegates to (a dependency, not the code under test): the reader must
    // hand it exactly memory[o .. min(allocated, o + MAXLEN)]
    pub use const_varint::{
        decode_i128_varint, decode_i16_varint, decode_i32_varint, decode_i64_varint,
        decode_u128_varint, decode_u16_varint, decode_u32_varint, decode_u64_varint,
    };
}

impl Prop for C15 {
    type Case = CaseC15;
    const ID: &'static str = "C15";
    const PROFILES: &'static [&'static str] = &["checked", "release"];
    fn strategy(tier: Tier) -> BoxedStrategy<CaseC15> {
        let nq = if tier == Tier::Thorough { 24 } else { 8 };
        let off = prop_oneof![
            3 => any::<u16>().prop_map(OffSpec::Abs),
            6 => (-20i8..=3).prop_map(OffSpec::NearAlloc),
            2 => (-20i8..=17).prop_map(OffSpec::NearCap),
            2 => (0u8..40).prop_map(OffSpec::MaxMinus),
            1 => any::<u8>().prop_map(OffSpec::Big),
        ];
        let q = (0..NREADERS, off).prop_map(|(reader, off)| Query { reader, off });
        (
            any::<bool>(),
            any::<bool>(),
            prop_oneof![Just(0u8), 0u8..40],
            any::<u16>(),
            any::<u32>(),
            // the mark: anywhere, with the two ends (empty arena, full arena) made likely
            prop_oneof![1 => Just(0u16), 1 => Just(u16::MAX), 8 => any::<u16>()],
            prop::collection::vec(q, 1..=nq),
            prop_oneof![39 => Just(None), 1 => any::<u16>().prop_map(Some)],
            prop_oneof![3 => Just(None), 1 => any::<u16>().prop_map(Some)],
            prop_oneof![7 => Just(None), 1 => any::<u8>().prop_map(Some)],
        )
            .prop_map(
                |(sync, unify, reserved, extra, seed, mark, queries, shrink, trunc, fileoff)| CaseC15 {
                    sync,
                    unify,
                    reserved,
                    extra,
                    seed,
                    mark,
                    queries,
                    shrink,
                    trunc,
                    fileoff,
                },
            )
            .boxed()
    }
    fn run(case: &CaseC15) -> CaseReport {
        if case.sync {
            run_c15::<sync::Arena>(case)
        } else {
            run_c15::<unsync::Arena>(case)
        }
    }
    fn cases(tier: Tier) -> u64 {
        scale(tier, 2_000_000, 10_000_000)
    }
    fn rule() -> &'static str {
        "an arena filled with pseudo-random content (continuation-heavy) and then rewound so that non-zero bytes lie above allocated(); 1..8 reader calls at offsets dense around allocated()-20..+3 and capacity, 0..=capacity+16, around 2^32 / 2^63 and usize::MAX-k, for get_u8/i8, get_{u,i}{16,32,64,128}_{be,le} and the eight varint readers, under checked and unchecked builds. Oracle: fixed width Ok(v) with v = reference decode of memory()[o..o+N] iff o+N <= allocated() (u128 arithmetic) else OutOfBounds; varint: OutOfBounds at or above the mark, otherwise the result equals the decoder applied to exactly memory()[o..min(allocated, o+MAXLEN)] (const_varint, the crate rarena delegates to), cross-checked with an independent LEB128 reference for unsigned types; slice accessor lengths. One case in 40 is the file variant: the arena lives in a file, is closed after the rewind and reopened (map_mut / map_copy / map / map_copy_read_only) with a capacity option below the cursor stored in the file: the open must be refused, or yield an arena whose allocated_memory() / data() stay inside memory() and whose readers behave at the end of memory. Non-trivial = non-zero bytes above the mark and a query that straddles the mark, a varint whose terminator lies above it, or an offset near usize::MAX"
    }
    fn simplify(c: &CaseC15) -> Vec<CaseC15> {
        (0..c.queries.len())
            .map(|i| {
                let mut x = c.clone();
                x.queries.remove(i);
                x
            })
            .collect()
    }
}

// ------------------------------------------------------------------------------------------ C19

#[derive(Clone, Debug, Serialize, Deserialize)]
pub struct CaseC19 {
    pub sync: bool,
    pub unify: bool,
    pub reserved: u8,
    /// checksummed length = pages * page + delta (clamped to what an arena can have)
    pub pages: u8,
    pub delta: i16,
    pub seed: u32,
    pub backend: u8,
    /// 0 none, 1 optimistic, 2 pessimistic
    #[serde(default)]
    pub freelist: u8,
    /// with a free list: the fill is made of three blocks and the middle one (its size by this value, monotone) is
    /// released, so that the header - part of the checksummed bytes in the unified layout - holds a non-empty list
    #[serde(default)]
    pub hole: Option<u16>,
    /// file backend: the checksum is (also) taken in a later read-only session of the file
    #[serde(default)]
    pub reopen_ro: bool,
}

/// A checksummer whose streaming state is the running index: independent of chunk boundaries,
/// sensitive to dropped, repeated or reordered chunks.
#[derive(Clone, Default)]
pub struct PosSum {
    idx: u64,
    acc: u64,
}
const POS_MOD: u64 = u64::MAX - 58; // 2^64 - 59
impl Checksumer for PosSum {
    fn update(&mut self, buf: &[u8]) {
        for b in buf {
            self.idx += 1;
            let term = ((self.idx as u128 * (*b as u128 + 1)) % POS_MOD as u128) as u64;
            self.acc = ((self.acc as u128 + term as u128) % POS_MOD as u128) as u64;
        }
    }
    fn reset(&mut self) {
        *self = PosSum::default();
    }
    fn digest(&self) -> u64 {
        self.acc ^ self.idx.rotate_left(32)
    }
}
#[derive(Clone, Default)]
pub struct BuildPosSum;
impl BuildChecksumer for BuildPosSum {
    type Checksumer = PosSum;
    fn build_checksumer(&self) -> PosSum {
        PosSum::default()
    }
    fn checksum_one(&self, src: &[u8]) -> u64 {
        let mut p = PosSum::default();
        p.update(src);
        p.digest()
    }
}

pub struct C19;

fn run_c19<A: Flavor>(case: &CaseC19) -> CaseReport {
    let mut classes: BTreeSet<&'static str> = BTreeSet::new();
    let page = crate::enga::page_size();
    let fl = match case.freelist % 3 {
        0 => rarena_allocator::Freelist::None,
        1 => rarena_allocator::Freelist::Optimistic,
        _ => rarena_allocator::Freelist::Pessimistic,
    };
    let opts = Options::new()
        .with_unify(case.unify)
        .with_reserved(case.reserved as u32)
        .with_freelist(fl)
        .with_minimum_segment_size(8);
    let file = case.backend % 8 == 7;
    let anon = case.backend % 8 == 6;
    let d = if case.unify || file {
        opts.data_offset_unify::<A>()
    } else {
        opts.data_offset::<A>()
    };
    let reserved = case.reserved as usize;
    // checksummed slice = allocated_memory()[reserved..]; its minimum length is d - reserved
    let want_len = ((case.pages as usize % 4) * page) as i64 + case.delta as i64;
    let len = (want_len.max((d - reserved) as i64)) as usize;
    let allocated = reserved + len;
    let cap = allocated + (case.seed as usize % 64);
    let mut path = None;
    let mut arena: A = if file {
        let p = crate::enga::fresh_path();
        let _ = std::fs::remove_file(&p);
        let r = unsafe {
            opts.with_capacity(cap as u32)
                .with_create_new(true)
                .with_read(true)
                .with_write(true)
                .map_mut::<A, _>(&p)
        };
        path = Some(p);
        match r {
            Ok(a) => a,
            Err(_) => {
                return CaseReport {
                    nontrivial: false,
                    classes,
                    viol: None,
                }
            }
        }
    } else if anon {
        match opts.with_capacity(cap as u32).map_anon::<A>() {
            Ok(a) => a,
            Err(_) => {
                return CaseReport {
                    nontrivial: false,
                    classes,
                    viol: None,
                }
            }
        }
    } else {
        match opts.with_capacity(cap as u32).alloc::<A>() {
            Ok(a) => a,
            Err(_) => {
                return CaseReport {
                    nontrivial: false,
                    classes,
                    viol: None,
                }
            }
        }
    };
    let res = (|| -> Result<(), Viol> {
        if reserved > 0 {
            let r = unsafe { arena.reserved_slice_mut() };
            for (i, b) in r.iter_mut().enumerate() {
                *b = content_byte(case.seed ^ 0xABCD, i);
            }
        }
        let n = allocated - arena.allocated();
        // one block, or - with a free list and room for it - three, the middle one released again (it becomes a segment:
        // the cursor stays where it is, the list in the header is no longer empty)
        let hole = match case.hole {
            Some(h) if case.freelist % 3 != 0 && n >= 96 => {
                Some(24 + ((h as usize * (n - 96 + 1)) >> 16))
            }
            _ => None,
        };
        let parts: Vec<usize> = match hole {
            Some(h) => {
                let first = (n - h) / 2;
                vec![first, h, n - h - first]
            }
            None => vec![n],
        };
        {
            let mut at = 0usize;
            let mut middle = None;
            for (k, len_k) in parts.iter().enumerate() {
                if *len_k == 0 {
                    continue;
                }
                let mut h = arena
                    .alloc_bytes(*len_k as u32)
                    .map_err(|e| viol!("C04", "fill-failed", "{e:?}"))?;
                let p = h.as_mut_ptr();
                for i in 0..*len_k {
                    unsafe { p.add(i).write(content_byte(case.seed, at + i)) };
                }
                at += len_k;
                if hole.is_some() && k == 1 {
                    middle = Some(h);
                } else {
                    unsafe { Buffer::detach(&mut h) };
                }
            }
            if let Some(h) = middle {
                // released while a block lies above it: it goes to the list, not back to the cursor
                drop(h);
                classes.insert("segment-in-free-list");
            }
        }
        if arena.allocated() != allocated {
            return Err(viol!(
                "C01",
                "cursor-range",
                "could not reach allocated()={allocated}, got {}",
                arena.allocated()
            ));
        }
        // bytes above the mark must not matter
        unsafe {
            let p = arena.raw_mut_ptr();
            for i in allocated..arena.capacity() {
                p.add(i).write(0xEE);
            }
        }
        if file && case.reopen_ro {
            // a later read-only session of the same file (the list head stored in the file is part of what it sums)
            let p = path.clone().unwrap();
            let tmp = std::mem::replace(
                &mut arena,
                unsafe { opts.with_read(true).map::<A, _>(&p) }
                    .map_err(|e| viol!("C05", "reopen-failed", "{e:?}"))?,
            );
            drop(tmp);
            classes.insert("read-only-session");
        }
        // the statement's right-hand side, literally: allocated_memory()[reserved_bytes()..] as the arena reports them
        // (a wrong reserved_bytes() or allocated_memory() length is judged through the equation first; only if the
        // equation still holds is the length itself reported, under the property that owns it)
        let rb = arena.reserved_bytes().min(arena.allocated_memory().len());
        let data = arena.allocated_memory()[rb..].to_vec();
        let data_len = data.len();
        let r = len % page;
        if len >= page && (r <= 1 || r == page - 1) {
            classes.insert("at-page-multiple");
        }
        if len > page {
            classes.insert("multi-page");
        }
        if len < page {
            classes.insert("sub-page");
        }
        let crc = Crc32::new();
        let got = guard("checksum", "C19", || arena.checksum(&crc))?;
        let want = crc.checksum_one(&data);
        if got != want {
            return Err(viol!("C19", "crc32-differs", "checksum(Crc32)={got:#x}, one-shot over allocated_memory()[{rb}..] (len {data_len}; configured reserved {reserved}) = {want:#x}"));
        }
        let ps = BuildPosSum;
        let got = guard("checksum", "C19", || arena.checksum(&ps))?;
        let want = ps.checksum_one(&data);
        if got != want {
            return Err(viol!("C19", "possum-differs", "checksum(position-weighted sum)={got:#x}, one-shot over allocated_memory()[{reserved}..] (len {len}) = {want:#x}"));
        }
        if arena.reserved_bytes() != reserved {
            return Err(viol!(
                "C16",
                "acc-reserved-bytes",
                "reserved_bytes()={} configured {reserved}",
                arena.reserved_bytes()
            ));
        }
        if data_len != len {
            return Err(viol!(
                "C15",
                "slice-lengths",
                "allocated_memory()[reserved..] has length {data_len}, expected {len}"
            ));
        }
        Ok(())
    })();
    drop(arena);
    if let Some(p) = path {
        let _ = std::fs::remove_file(p);
    }
    let nontrivial =
        classes.contains("at-page-multiple") || (classes.contains("multi-page") && reserved > 0);
    CaseReport {
        nontrivial,
        classes,
        viol: res.err(),
    }
}

impl Prop for C19 {
    type Case = CaseC19;
    const ID: &'static str = "C19";
    fn strategy(_tier: Tier) -> BoxedStrategy<CaseC19> {
        let delta =
            prop_oneof![5 => -2i16..=2, 2 => -64i16..=64, 2 => any::<i16>().prop_map(|v| v % 4096)];
        (
            any::<bool>(),
            any::<bool>(),
            prop_oneof![2 => Just(0u8), 3 => 0u8..=64],
            0u8..4,
            delta,
            any::<u32>(),
            any::<u8>(),
            0u8..3,
            prop_oneof![1 => Just(None), 1 => any::<u16>().prop_map(Some)],
            any::<bool>(),
        )
            .prop_map(
                |(
                    sync,
                    unify,
                    reserved,
                    pages,
                    delta,
                    seed,
                    backend,
                    freelist,
                    hole,
                    reopen_ro,
                )| CaseC19 {
                    sync,
                    unify,
                    reserved,
                    pages,
                    delta,
                    seed,
                    backend,
                    freelist,
                    hole,
                    reopen_ro,
                },
            )
            .boxed()
    }
    fn run(case: &CaseC19) -> CaseReport {
        if case.sync {
            run_c19::<sync::Arena>(case)
        } else {
            run_c19::<unsync::Arena>(case)
        }
    }
    fn cases(tier: Tier) -> u64 {
        scale(tier, 480_000, 5_000_000)
    }
    fn rule() -> &'static str {
        "reserved 0..=64, checksummed length = k*page + delta for k in 0..=3 and delta dense at -2..=2 (plus random), reached exactly by one alloc_bytes of the right size - or, with a free list, by three blocks of which the middle one is released again, so that the header (part of the checksummed bytes in the unified layout) holds a non-empty list; file-backed cases may take the checksum in a later read-only session -, pseudo-random content, 0xEE above the mark, Vec / anon / file backends, both flavours; oracle: checksum(b) == b.checksum_one(allocated_memory()[reserved..]) for Crc32 and for a position-weighted sum (sum of (i+1)*(b_i+1) mod 2^64-59, xor rotated length) whose streaming state is the running index, so dropped, repeated or reordered chunks change the result while chunk boundaries do not. Non-trivial = length within 1 of a page multiple (>= 1 page), or multi-page with a non-empty reserved prefix"
    }
}
