//! Properties decided by Engine B: C02 (exclusive + intact under every interleaving), C07 (every
//! operation finishes), C12 (happens-before), and the threaded half of C13.

use super::*;
use crate::case::{prelude_strategy, Backend, Cfg, Fl, Op};
use crate::engb::{run_case_b, CaseB, OptsB, POp};
use proptest::prelude::*;
use std::collections::BTreeSet;

fn cfg_b(freelists: &'static [(u32, u8)]) -> BoxedStrategy<Cfg> {
    let mut p = Profile::base();
    p.flavors = &[Fl::Sync];
    p.backends = &[(6, Backend::Vec), (1, Backend::Anon), (2, Backend::File)];
    p.freelists = freelists;
    p.caps = &[(3, 200, 420), (2, 420, 1024)];
    p.reserved_max = 16;
    cfg_strategy(&p)
        .prop_map(|mut c| {
            c.min_seg = [0u32, 8, 20][(c.min_seg % 3) as usize];
            c.off_pages = 0;
            c
        })
        .boxed()
}

fn pop_strategy(c12: bool) -> BoxedStrategy<POp> {
    let nt = crate::types::ntypes() as u8;
    let size = prop_oneof![4 => 1u16..=24, 4 => 24u16..=72, 1 => 72u16..=200, 1 => Just(0u16)];
    let mut v: Vec<(u32, BoxedStrategy<POp>)> = vec![
        (
            28,
            (size.clone(), 0u8..4)
                .prop_map(|(n, payload)| POp::AllocBytes { n, payload })
                .boxed(),
        ),
        (
            16,
            (1u8..=8, -9i8..=9, 0u8..4)
                .prop_map(|(num, d, payload)| POp::AllocRel { num, d, payload })
                .boxed(),
        ),
        (
            6,
            (any::<u8>(), -4i8..=0, 0u8..4)
                .prop_map(|(ix, d, payload)| POp::AllocSeg { ix, d, payload })
                .boxed(),
        ),
        (
            18,
            (0..nt, 0u8..4)
                .prop_map(|(ty, payload)| POp::AllocTyped { ty, payload })
                .boxed(),
        ),
        (
            10,
            (0..nt, 0u16..40, 0u8..4)
                .prop_map(|(ty, n, payload)| POp::AllocAligned { ty, n, payload })
                .boxed(),
        ),
        (34, any::<u16>().prop_map(|h| POp::Drop { h }).boxed()),
        (3, Just(POp::Discard).boxed()),
    ];
    if c12 {
        v.push((22, size.prop_map(|n| POp::AllocOwned { n }).boxed()));
        v.push((6, Just(POp::CloneArena).boxed()));
        v.push((6, Just(POp::DropClone).boxed()));
        v.push((
            18,
            (any::<u16>(), 0u8..4)
                .prop_map(|(h, to)| POp::Send { h, to })
                .boxed(),
        ));
        v.push((10, Just(POp::Recv).boxed()));
    }
    proptest::strategy::Union::new_weighted(v).boxed()
}

fn schedule_strategy(maxlen: usize) -> BoxedStrategy<Vec<u8>> {
    prop_oneof![
        2 => prop::collection::vec(any::<u8>(), 0..=maxlen),
        // bursty: long solo runs with a few pre-emptions
        3 => prop::collection::vec((0u8..4, 1u8..=24), 0..=12).prop_map(|runs| runs.into_iter().flat_map(|(t, k)| std::iter::repeat(t).take(k as usize)).collect()),
        // one long pre-emption: thread a runs j points, then thread b runs alone for a long stretch, then a again
        3 => (0u8..4, prop_oneof![3 => 0usize..12, 1 => 12usize..48], 0u8..4, 20usize..220, 0usize..40).prop_map(|(a, j, b, l, k)| {
            let mut v = vec![a; j];
            v.extend(std::iter::repeat(b).take(l));
            v.extend(std::iter::repeat(a).take(k));
            v
        }),
        // thread 0 runs alone first (it sets the scene), then uniform choices
        2 => (8usize..120, prop::collection::vec(any::<u8>(), 0..=maxlen)).prop_map(|(l, rest)| {
            let mut v = vec![0u8; l];
            v.extend(rest);
            v
        }),
        1 => Just(Vec::new()),
    ]
    .boxed()
}

pub fn case_b_strategy(
    tier: Tier,
    freelists: &'static [(u32, u8)],
    c12: bool,
) -> BoxedStrategy<CaseB> {
    // the happens-before check gets the larger share of nested removal windows: orderings on the restore paths only
    // matter when two failed unlinks overlap
    let nested_w: u32 = if c12 { 8 } else { 1 };
    let (maxops, maxthreads, schedlen) = if tier == Tier::Thorough {
        (10usize, 4usize, 160usize)
    } else {
        (6, 3, 64)
    };
    let extra_pre = prop::collection::vec(
        prop_oneof![3 => any::<u16>().prop_map(|h| Op::Drop { h }), 1 => (1u32..60).prop_map(|n| Op::AllocBytes { n: crate::case::Size::Abs(n), owned: false, via: 0 })],
        0..=3,
    );
    let spurious = if tier == Tier::Thorough {
        any::<bool>().boxed()
    } else {
        Just(false).boxed()
    };
    // ABA provokers: one thread pops a segment, splits it, takes the remainder and frees the first part again
    // (the same offset comes back with a different size) while a victim is inside its own pop
    let popper = (
        (2u8..=5, -9i8..=9),
        (5u8..=8, -9i8..=0),
        prop::collection::vec(pop_strategy(c12), 0..=2),
    )
        .prop_map(|((n1, d1), (n2, d2), rest)| {
            let mut v = vec![
                POp::AllocRel {
                    num: n1,
                    d: d1,
                    payload: 0,
                },
                POp::AllocRel {
                    num: n2,
                    d: d2,
                    payload: 0,
                },
                POp::Drop { h: 0 },
            ];
            v.extend(rest);
            v
        });
    let victim = (
        (5u8..=8, -9i8..=9),
        prop::collection::vec(pop_strategy(c12), 0..=2),
    )
        .prop_map(|((n, d), rest)| {
            let mut v = vec![POp::AllocRel {
                num: n,
                d,
                payload: 0,
            }];
            v.extend(rest);
            v
        });
    let templ = (
        popper,
        victim,
        prop::collection::vec(pop_strategy(c12), 1..=maxops),
        0u8..6,
        any::<bool>(),
    )
        .prop_map(|(p, v, other, perm, three)| {
            let mut t = vec![v, p];
            if three {
                t.push(other);
            }
            let k = perm as usize % t.len();
            t.rotate_left(k);
            t
        });
    // nested removal windows: thread 0 takes the last (largest, in a Pessimistic list) segment, writes it and frees it
    // again under the scheduler; 2..4 further threads each ask for the size of a segment at a generated list position,
    // so that - with the mark pre-emption on - several threads sit between their mark and their unlink on
    // neighbouring nodes of one list at the same time (failed unlinks, restored node words, then a taker)
    // list positions: the head and the tail are where removal windows nest (a thread that keeps taking the head drains
    // the list in front of a marked node; the tail is the segment thread 0 has just written and freed)
    let seg = |hi: bool| {
        let ix = if hi {
            (200u8..=255).boxed()
        } else {
            prop_oneof![2 => Just(0u8), 1 => 200u8..=255, 3 => 0u8..=255].boxed()
        };
        (
            ix,
            prop_oneof![3 => Just(0i8), 2 => -4i8..=0, 1 => -9i8..=9],
            0u8..4,
        )
            .prop_map(|(ix, d, payload)| POp::AllocSeg { ix, d, payload })
    };
    let follower = (
        seg(false),
        prop::collection::vec(prop_oneof![3 => seg(false), 1 => pop_strategy(c12)], 0..=3),
    )
        .prop_map(|(first, rest)| {
            let mut v = vec![first];
            v.extend(rest);
            v
        });
    let nested = (
        seg(true),
        prop::collection::vec(follower, 2..=4),
        prop::collection::vec(pop_strategy(c12), 0..=1),
    )
        .prop_map(|(first, others, tail)| {
            let mut t0 = vec![first, POp::Drop { h: 0 }];
            t0.extend(tail);
            let mut t = vec![t0];
            t.extend(others);
            t
        });
    let progs = prop_oneof![
        8 => prop::collection::vec(prop::collection::vec(pop_strategy(c12), 1..=maxops), 2..=maxthreads),
        3 => templ,
        nested_w => nested,
    ];
    (
        cfg_b(freelists),
        prelude_strategy(),
        extra_pre,
        progs,
        schedule_strategy(schedlen),
        prop_oneof![2 => Just(0u8), 3 => 1u8..=40],
        spurious,
        any::<bool>(),
    )
        .prop_map(
            |(cfg, mut pre, extra, progs, schedule, mark_preempt, spurious, park_all)| {
                pre.extend(extra);
                CaseB {
                    cfg,
                    pre,
                    progs,
                    schedule,
                    mark_preempt,
                    spurious,
                    park_all: park_all && mark_preempt > 0,
                }
            },
        )
        .boxed()
}

fn simplify_b(c: &CaseB) -> Vec<CaseB> {
    let mut out = Vec::new();
    for t in 0..c.progs.len() {
        for i in 0..c.progs[t].len() {
            let mut x = c.clone();
            x.progs[t].remove(i);
            out.push(x);
        }
    }
    if !c.schedule.is_empty() {
        let mut x = c.clone();
        x.schedule.truncate(c.schedule.len() / 2);
        out.push(x);
    }
    if c.park_all {
        let mut x = c.clone();
        x.park_all = false;
        out.push(x);
    }
    out
}

const B_ASSUME: &[&str] = &[
    "interleavings are explored at the granularity of the crate's atomic accesses (verif hook before-events) plus the arena's own zeroing; bulk non-atomic writes are single steps",
    "compare_exchange_weak is a strong CAS under the hook (spurious failures are injected, at most two per operation, in the thorough tier only)",
    "the pre-history (Engine A, single-threaded) builds the initial free-list shape; its detached ranges stay in the shadow map as allocations held forever",
];

macro_rules! engb_prop {
    ($name:ident, $id:literal, $fl:expr, $c12:expr, $races:expr, $q:expr, $t:expr, $rule:literal, $nt:expr) => {
        pub struct $name;
        impl Prop for $name {
            type Case = CaseB;
            const ID: &'static str = $id;
            const SHRINK_ITERS: u32 = 600;
            fn strategy(tier: Tier) -> BoxedStrategy<CaseB> {
                case_b_strategy(tier, $fl, $c12)
            }
            fn run(case: &CaseB) -> CaseReport {
                let r = run_case_b(
                    case,
                    &OptsB {
                        detect_races: $races,
                        owner: $id,
                    },
                );
                let mut classes: BTreeSet<&'static str> = r.classes.clone();
                if r.cas_failures > 0 {
                    classes.insert("cas-failure");
                }
                if r.saw_marked {
                    classes.insert("saw-marked-node");
                }
                if r.freelist_threads >= 2 {
                    classes.insert("2-threads-on-freelist");
                }
                if r.inconclusive {
                    classes.insert("inconclusive-step-budget");
                }
                crate::runner::bump("scheduled_steps", r.steps);
                crate::runner::bump("context_switches", r.switches);
                let f: fn(&crate::engb::RunB) -> bool = $nt;
                CaseReport {
                    nontrivial: f(&r) && !r.inconclusive,
                    classes,
                    viol: r.viol,
                }
            }
            fn cases(tier: Tier) -> u64 {
                scale(tier, $q, $t)
            }
            fn rule() -> &'static str {
                $rule
            }
            fn assumptions() -> Vec<&'static str> {
                B_ASSUME.to_vec()
            }
            fn simplify(c: &CaseB) -> Vec<CaseB> {
                simplify_b(c)
            }
        }
    };
}

engb_prop!(C02, "C02", ALL_FL, false, false, 400_000, 4_000_000,
    "Engine B: 2..3 (thorough 4) threads, each with its own clone of one sync::Arena and a generated program (alloc_bytes / alloc::<T> / alloc_aligned_bytes::<T> / drop / discard_freelist, allocations may be kept forever) run under a generated schedule (uniform choice bytes, bursty runs, or forced pre-emption of a thread right after its mark CAS) at the granularity of the arena's atomic accesses, from a free-list shape built by a generated pre-history (blocks, fill to exhaustion, free a subset); payloads include forged node words. Oracle: at every alloc return the range is inside the data area and disjoint from every live range of every thread; every arena write event (atomic or zeroing) must miss every live range; bytes verified before each release and at the end. Cases ending in a C07 stall are discarded here. Non-trivial = at least two threads operated on free-list nodes and at least one CAS failed (the threads interfered)",
    |r| r.freelist_threads >= 2 && r.cas_failures >= 1);

engb_prop!(C07, "C07", LIST_FL, false, false, 64_000, 2_000_000,
    "Engine B programs (as C02, Optimistic and Pessimistic only) in which threads keep allocations forever or finish early, under uniform, bursty and mark-targeted schedules with a fair round-robin fallback. Oracle (bounded safety surrogate for the liveness statement): per thread, the number of consecutive scheduling points during which no thread changed any word; a thread is stalled above L = 8*(nodes+ops+2)*max_retries+64; violation iff every unfinished thread is stalled (the state can no longer change, so no call can return). A single operation exceeding 100*L steps while others still write is counted as inconclusive, not as a violation. Non-trivial = some thread observed a marked node or had a CAS fail",
    |r| r.saw_marked || r.cas_failures >= 1);

engb_prop!(C12, "C12", ALL_FL, true, true, 400_000, 3_000_000,
    "Engine B programs (2..3 threads, thorough 4; up to 5 in the nested-removal-window family: thread 0 pops the last segment, writes it and frees it again, 2..4 threads then ask for the sizes of segments at generated list positions while every marking thread is pre-empted right after its mark) extended with owned buffers created on one thread and sent to / dropped on another (harness mailbox carrying a vector clock), arena clones created and dropped by threads. A FastTrack-style detector is driven by the hook's event stream with the orderings the code actually passes: release clocks per atomic location (store Release sets, relaxed store clears, RMW joins and continues the release sequence), acquire on loads / failed CAS with an acquiring ordering; per-byte shadow of the last write and last reads for the owners' plain accesses, the arena's zeroing, the arena's atomic accesses inside arena memory and the final release of the backing memory. Race = two accesses to a common byte by different threads, at least one a write, at least one non-atomic, unordered. The original arena value is moved into thread 0 and the main thread keeps none, so the backing memory is released by whichever thread drops the last value, under the scheduler, and that release is checked as a plain write to every byte. Non-trivial = a byte range changed owner thread at least once, or the last arena value was dropped by a thread other than the creator's",
    |r| r.owner_changes >= 1 || r.classes.contains("last-drop-on-non-creator-thread"));

// ------------------------------------------------------------------------------------------ C13
// single-threaded histories (Engine A) plus multi-threaded clone/drop interleavings (Engine B)

/// Metamorphic half of C13: the same history with every allocation made through the borrowed API and
/// with every allocation made through the owned API must produce the same stream of observations
/// (result, offset, capacity, buffer extent, allocated, discarded, remaining, free list) - an owned handle
/// releases exactly what the borrowed handle would have. refs() is not compared (owned handles embed an
/// arena value), and neither are the clone / drop-arena steps, whose choice of arena value depends on it.
fn owned_vs_borrowed(c: &CaseA, classes: &mut BTreeSet<&'static str>) -> Option<crate::enga::Viol> {
    use crate::case::Op;
    use crate::enga::Viol;
    let with = |owned: bool| -> Vec<Op> {
        c.ops
            .iter()
            .map(|op| match op {
                Op::AllocBytes { n, via, .. } => Op::AllocBytes {
                    n: n.clone(),
                    owned,
                    via: *via,
                },
                Op::AllocAligned { ty, n, via, .. } => Op::AllocAligned {
                    ty: *ty,
                    n: n.clone(),
                    owned,
                    via: *via,
                },
                Op::AllocTyped { ty, via, .. } => Op::AllocTyped {
                    ty: *ty,
                    owned,
                    via: *via,
                },
                o => o.clone(),
            })
            .collect()
    };
    if !c.ops.iter().any(|op| {
        matches!(
            op,
            Op::AllocBytes { .. } | Op::AllocAligned { .. } | Op::AllocTyped { .. }
        )
    }) {
        return None;
    }
    // truncate is only legal (and only applied by the interpreter) while refs() == 1; owned handles embed arena
    // values, so whether a truncate step applies differs between the two variants by construction
    if c.ops.iter().any(|op| matches!(op, Op::Truncate { .. })) {
        return None;
    }
    let mode = crate::enga::Mode {
        trace: true,
        drop_zero_now: true,
        ..crate::enga::Mode::default()
    };
    crate::enga::set_owner(Some("C13"));
    let a = crate::enga::run_case(
        &CaseA {
            cfg: c.cfg.clone(),
            ops: with(false),
        },
        mode.clone(),
    );
    let b = crate::enga::run_case(
        &CaseA {
            cfg: c.cfg.clone(),
            ops: with(true),
        },
        mode,
    );
    crate::enga::set_owner(None);
    if a.viol.is_some() || b.viol.is_some() || a.foreign.is_some() || b.foreign.is_some() {
        // a predicate failed in a variant: report it as it is (the owner filter decides whose it is)
        return a.viol.or(b.viol).or(a.foreign).or(b.foreign);
    }
    classes.insert("owned-vs-borrowed-compared");
    if a.trace.len() != b.trace.len() {
        return Some(crate::enga::viol!(
            "C13",
            "owned-vs-borrowed-length",
            "borrowed variant made {} steps, owned variant {}",
            a.trace.len(),
            b.trace.len()
        ));
    }
    for (x, y) in a.trace.iter().zip(b.trace.iter()) {
        if matches!(
            c.ops.get(x.op),
            Some(Op::CloneArena) | Some(Op::DropArena { .. })
        ) {
            continue;
        }
        // the result string of a non-allocating step is harness bookkeeping (which handle object a Drop
        // index lands on); the state after the step is what is compared
        let is_alloc = matches!(
            c.ops.get(x.op),
            Some(Op::AllocBytes { .. })
                | Some(Op::AllocAligned { .. })
                | Some(Op::AllocTyped { .. })
        );
        let same = (!is_alloc || x.res == y.res)
            && x.range == y.range
            && x.snap.allocated == y.snap.allocated
            && x.snap.discarded == y.snap.discarded
            && x.snap.remaining == y.snap.remaining
            && x.snap.capacity == y.snap.capacity
            && x.snap.minseg == y.snap.minseg
            && x.snap.fl == y.snap.fl;
        if !same {
            return Some(crate::enga::viol!(
                "C13",
                "owned-vs-borrowed-differs",
                "op #{} {:?}: all-borrowed history observes {:?}, all-owned history observes {:?}",
                x.op,
                c.ops.get(x.op),
                x,
                y
            ));
        }
    }
    None
}

#[derive(Clone, Debug, serde::Serialize, serde::Deserialize)]
#[serde(untagged)]
pub enum CaseC13 {
    A(CaseA),
    B(CaseB),
}

pub struct C13;
impl Prop for C13 {
    type Case = CaseC13;
    const ID: &'static str = "C13";
    const SHRINK_ITERS: u32 = 1200;
    fn strategy(tier: Tier) -> BoxedStrategy<CaseC13> {
        prop_oneof![
            5 => <C13A as Prop>::strategy(tier).prop_map(CaseC13::A),
            1 => case_b_strategy(tier, ALL_FL, true).prop_map(CaseC13::B),
        ]
        .boxed()
    }
    fn run(case: &CaseC13) -> CaseReport {
        match case {
            CaseC13::A(c) => {
                let mut r = <C13A as Prop>::run(c);
                if r.viol.is_none() {
                    if let Some(v) = owned_vs_borrowed(c, &mut r.classes) {
                        r.viol = Some(v);
                    }
                }
                r
            }
            CaseC13::B(c) => {
                let r = run_case_b(
                    c,
                    &OptsB {
                        detect_races: false,
                        owner: "C13",
                    },
                );
                let mut classes: BTreeSet<&'static str> = r.classes.clone();
                classes.insert("threaded-case");
                crate::runner::bump("scheduled_steps", r.steps);
                let nontrivial = !r.inconclusive
                    && classes.contains("unmounted-by-a-scheduled-thread")
                    && (classes.contains("thread-cloned-arena")
                        || classes.contains("owned-buffer-sent"));
                CaseReport {
                    nontrivial,
                    classes,
                    viol: r.viol,
                }
            }
        }
    }
    fn cases(tier: Tier) -> u64 {
        scale(tier, 200_000, 4_000_000)
    }
    fn rule() -> &'static str {
        "5/6 of the cases: Engine A 'handles' histories: arena clone/drop (original may go first), every alloc flavour borrowed/owned, detach, drop in any order, drop-counting value types, generated teardown order; per drop the state delta must equal exactly one dealloc(buffer_offset, buffer_capacity) (cursor move, or one node inside the extent, or discarded += extent), a detached drop changes nothing, the value is dropped exactly once / not at all when detached, refs() == live arena values + owned handles, the Unmount event fires exactly once, at the drop that brings the count to zero. 1/6 of the cases: Engine B programs in which 2-4 threads clone and drop arena values and create, send and drop owned buffers under a generated schedule; the original arena value lives in thread 0 and the main thread keeps none: every access to the reference count (fetch_add, fetch_sub, load) must observe exactly the number of arena values alive in the model, the backing memory is released exactly once, by the thread that drops the last value, while no other value is alive. Non-trivial (A) = an owned handle outlived the original arena value and a drop-type value was dropped through a handle; (B) = the memory was released by a scheduled thread in a case with thread-made clones or a sent owned buffer"
    }
    fn assumptions() -> Vec<&'static str> {
        let mut v = <C13A as Prop>::assumptions();
        v.extend(B_ASSUME.iter().copied());
        v
    }
    fn simplify(c: &CaseC13) -> Vec<CaseC13> {
        match c {
            CaseC13::A(c) => simplify_case_a(c).into_iter().map(CaseC13::A).collect(),
            CaseC13::B(c) => simplify_b(c).into_iter().map(CaseC13::B).collect(),
        }
    }
}

// ------------------------------------------------------------------------------------------ C08
// single-threaded histories (Engine A) plus recycling between threads under a schedule (Engine B)

#[derive(Clone, Debug, serde::Serialize, serde::Deserialize)]
#[serde(untagged)]
pub enum CaseC08 {
    A(CaseA),
    B(CaseB),
}

pub struct C08;
impl Prop for C08 {
    type Case = CaseC08;
    const ID: &'static str = "C08";
    const SHRINK_ITERS: u32 = 1200;
    fn strategy(tier: Tier) -> BoxedStrategy<CaseC08> {
        prop_oneof![
            5 => <C08A as Prop>::strategy(tier).prop_map(CaseC08::A),
            1 => case_b_strategy(tier, ALL_FL, false).prop_map(CaseC08::B),
        ]
        .boxed()
    }
    fn run(case: &CaseC08) -> CaseReport {
        match case {
            CaseC08::A(c) => <C08A as Prop>::run(c),
            CaseC08::B(c) => {
                let r = run_case_b(
                    c,
                    &OptsB {
                        detect_races: false,
                        owner: "C08",
                    },
                );
                let mut classes: BTreeSet<&'static str> = r.classes.clone();
                classes.insert("threaded-case");
                crate::runner::bump("scheduled_steps", r.steps);
                CaseReport {
                    nontrivial: !r.inconclusive && r.owner_changes >= 1,
                    classes,
                    viol: r.viol,
                }
            }
        }
    }
    fn cases(tier: Tier) -> u64 {
        scale(tier, 320_000, 10_000_000)
    }
    fn rule() -> &'static str {
        "5/6 of the cases: Engine A histories in which every owner fills its whole range with non-zero bytes right after allocation; releases via drop on top, drop not on top, explicit dealloc; rewind, discard_freelist, clear, file reopen; at the return of every alloc_bytes/alloc_bytes_owned every byte of the returned range is zero; one configuration in sixteen is a large arena (70 000 - 300 000 bytes: buffers of tens of pages released and re-issued). 1/6 of the cases: Engine B programs (2-4 threads on one sync::Arena under a generated schedule, every owner writes a non-zero payload over its whole range) with the same all-zero test at every alloc_bytes return, so that ranges released by one thread and re-issued to another - through the cursor, a segment or a remainder, with a pre-emption anywhere in between - are covered. Non-trivial (A) = the returned range intersects bytes an earlier owner had set non-zero; (B) = a byte range changed owner thread"
    }
    fn assumptions() -> Vec<&'static str> {
        let mut v = <C08A as Prop>::assumptions();
        v.extend(B_ASSUME.iter().copied());
        v
    }
    fn simplify(c: &CaseC08) -> Vec<CaseC08> {
        match c {
            CaseC08::A(c) => simplify_case_a(c).into_iter().map(CaseC08::A).collect(),
            CaseC08::B(c) => simplify_b(c).into_iter().map(CaseC08::B).collect(),
        }
    }
}

// ------------------------------------------------------------------------------------------ C04
// single-threaded boundary-size histories (Engine A) plus failing allocations under a schedule (Engine B)

#[derive(Clone, Debug, serde::Serialize, serde::Deserialize)]
#[serde(untagged)]
pub enum CaseC04 {
    A(CaseA),
    B(CaseB),
}

/// Engine B cases for C04 with fresh space left: requests that cannot fit (around u32::MAX, u32::MAX - allocated,
/// capacity, remaining) issued by one thread while the others make small requests that do fit - a failing call must
/// not disturb a concurrent one (no transient state of the failing call may be visible as a wrong cursor)
fn case_b_c04(tier: Tier) -> BoxedStrategy<CaseB> {
    let nt = crate::types::ntypes() as u8;
    let pop = prop_oneof![
        5 => (0u8..4, -20i8..=20).prop_map(|(sel, d)| POp::AllocHuge { sel, d }),
        6 => (1u16..=24, 0u8..2).prop_map(|(n, payload)| POp::AllocBytes { n, payload }),
        2 => (0..nt, 0u16..16, 0u8..2).prop_map(|(ty, n, payload)| POp::AllocAligned { ty, n, payload }),
        2 => (0..nt, 0u8..2).prop_map(|(ty, payload)| POp::AllocTyped { ty, payload }),
        2 => any::<u16>().prop_map(|h| POp::Drop { h }),
    ];
    let (maxops, maxthreads, schedlen) = if tier == Tier::Thorough {
        (8usize, 4usize, 120usize)
    } else {
        (5, 3, 48)
    };
    let progs = prop::collection::vec(prop::collection::vec(pop, 1..=maxops), 2..=maxthreads);
    let pre = prop::collection::vec(
        (1u32..40).prop_map(|n| Op::AllocBytes {
            n: crate::case::Size::Abs(n),
            owned: false,
            via: 0,
        }),
        1..=3,
    );
    (
        cfg_b(ALL_FL),
        pre,
        progs,
        schedule_strategy(schedlen),
        any::<bool>(),
    )
        .prop_map(move |(cfg, pre, progs, schedule, spurious)| CaseB {
            cfg,
            pre,
            progs,
            schedule,
            mark_preempt: 0,
            spurious: spurious && tier == Tier::Thorough,
            park_all: false,
        })
        .boxed()
}

pub struct C04;
impl Prop for C04 {
    type Case = CaseC04;
    const ID: &'static str = "C04";
    const PROFILES: &'static [&'static str] = &["checked", "release"];
    const SHRINK_ITERS: u32 = 1200;
    fn strategy(tier: Tier) -> BoxedStrategy<CaseC04> {
        prop_oneof![
            14 => <C04A as Prop>::strategy(tier).prop_map(CaseC04::A),
            1 => case_b_strategy(tier, LIST_FL, false).prop_map(CaseC04::B),
            1 => case_b_c04(tier).prop_map(CaseC04::B),
        ]
        .boxed()
    }
    fn run(case: &CaseC04) -> CaseReport {
        match case {
            CaseC04::A(c) => <C04A as Prop>::run(c),
            CaseC04::B(c) => {
                let r = run_case_b(
                    c,
                    &OptsB {
                        detect_races: false,
                        owner: "C04",
                    },
                );
                let mut classes: BTreeSet<&'static str> = r.classes.clone();
                classes.insert("threaded-case");
                crate::runner::bump("scheduled_steps", r.steps);
                let nontrivial =
                    !r.inconclusive && classes.contains("alloc-failed") && r.cas_failures >= 1;
                CaseReport {
                    nontrivial,
                    classes,
                    viol: r.viol,
                }
            }
        }
    }
    fn cases(tier: Tier) -> u64 {
        scale(tier, 320_000, 10_000_000)
    }
    fn rule() -> &'static str {
        "7/8 of the cases: Engine A histories with boundary-dense huge sizes (u32::MAX-k, u32::MAX-allocated+-d, 2^31+-d, capacity+-d, remaining+-d, random u32) for bytes and extra, every type, on every reachable state, under an overflow-checked and an unchecked build (same seeds); oracle: no panic, no signal (worker processes supervised), Ok => in-arena range with capacity <= arena capacity + C01/C03 predicates, Err => InsufficientSpace/ReadOnly and allocated/discarded/remaining/free list unchanged. 1/8 of the cases: Engine B programs on a shared sync::Arena, half of them with an exhausted cursor (so allocations compete for segments and some fail), half with fresh space left and requests that cannot fit (u32::MAX - k, u32::MAX - allocated + d, capacity + d, remaining + d) racing small requests that do: no panic in any thread; every range returned meanwhile lies in the data area and is disjoint from every live range (a failing call must not expose a transient cursor); a call that returns - in particular one that fails - must not leave a segment that it marked itself linked and marked (the failed call would have changed the free list). Non-trivial (A) = a request that exceeds remaining() or whose end would pass 2^32; (B) = some allocation failed in a run in which threads interfered (a CAS failed)"
    }
    fn assumptions() -> Vec<&'static str> {
        let mut v = <C04A as Prop>::assumptions();
        v.extend(B_ASSUME.iter().copied());
        v
    }
    fn simplify(c: &CaseC04) -> Vec<CaseC04> {
        match c {
            CaseC04::A(c) => simplify_case_a(c).into_iter().map(CaseC04::A).collect(),
            CaseC04::B(c) => simplify_b(c).into_iter().map(CaseC04::B).collect(),
        }
    }
}

// ------------------------------------------------------------------------------------------ C03
// single-threaded histories (Engine A) plus the same capacity / alignment law at every allocation return of
// threads that share one sync::Arena under a schedule (Engine B): the bump paths recompute padding and size
// inside compare-exchange retry loops, and a value carried over from a stale cursor only shows when another
// thread moves the cursor between the load and the compare-exchange

#[derive(Clone, Debug, serde::Serialize, serde::Deserialize)]
#[serde(untagged)]
pub enum CaseC03 {
    A(CaseA),
    B(CaseB),
}

/// Engine B cases for C03: fresh space left (the bump paths must be reachable), many aligned / typed requests
fn case_b_c03(tier: Tier) -> BoxedStrategy<CaseB> {
    let nt = crate::types::ntypes() as u8;
    let pop = prop_oneof![
        5 => (0..nt, 0u16..24, 0u8..2).prop_map(|(ty, n, payload)| POp::AllocAligned { ty, n, payload }),
        4 => (0..nt, 0u8..2).prop_map(|(ty, payload)| POp::AllocTyped { ty, payload }),
        4 => (1u16..=17, 0u8..2).prop_map(|(n, payload)| POp::AllocBytes { n, payload }),
        2 => any::<u16>().prop_map(|h| POp::Drop { h }),
    ];
    let (maxops, maxthreads, schedlen) = if tier == Tier::Thorough {
        (8usize, 4usize, 120usize)
    } else {
        (5, 3, 48)
    };
    let progs = prop::collection::vec(prop::collection::vec(pop, 1..=maxops), 2..=maxthreads);
    // a few small allocations first so that the cursor starts at an arbitrary residue
    let pre = prop::collection::vec(
        (1u32..24).prop_map(|n| Op::AllocBytes {
            n: crate::case::Size::Abs(n),
            owned: false,
            via: 0,
        }),
        0..=2,
    );
    (
        cfg_b(ALL_FL),
        pre,
        progs,
        schedule_strategy(schedlen),
        any::<bool>(),
    )
        .prop_map(move |(cfg, pre, progs, schedule, spurious)| CaseB {
            cfg,
            pre,
            progs,
            schedule,
            mark_preempt: 0,
            spurious: spurious && tier == Tier::Thorough,
            park_all: false,
        })
        .boxed()
}

pub struct C03;
impl Prop for C03 {
    type Case = CaseC03;
    const ID: &'static str = "C03";
    const SHRINK_ITERS: u32 = 1200;
    fn strategy(tier: Tier) -> BoxedStrategy<CaseC03> {
        prop_oneof![
            10 => <C03A as Prop>::strategy(tier).prop_map(CaseC03::A),
            1 => case_b_strategy(tier, ALL_FL, false).prop_map(CaseC03::B),
            1 => case_b_c03(tier).prop_map(CaseC03::B),
        ]
        .boxed()
    }
    fn run(case: &CaseC03) -> CaseReport {
        match case {
            CaseC03::A(c) => <C03A as Prop>::run(c),
            CaseC03::B(c) => {
                let r = run_case_b(
                    c,
                    &OptsB {
                        detect_races: false,
                        owner: "C03",
                    },
                );
                let mut classes: BTreeSet<&'static str> = r.classes.clone();
                classes.insert("threaded-case");
                if r.cas_failures > 0 {
                    classes.insert("cas-failure");
                }
                crate::runner::bump("scheduled_steps", r.steps);
                CaseReport {
                    nontrivial: !r.inconclusive && r.cas_failures >= 1,
                    classes,
                    viol: r.viol,
                }
            }
        }
    }
    fn cases(tier: Tier) -> u64 {
        scale(tier, 320_000, 10_000_000)
    }
    fn rule() -> &'static str {
        "5/6 of the cases: Engine A histories biased to typed/aligned allocations over a 38-type table (align 1..16, size 0..64, ZSTs, drop types) at every cursor residue; at each successful call: capacity law, offset alignment, address alignment when align <= maximum_alignment, zero-size requests succeed without consuming space. 1/6 of the cases: Engine B programs (2-4 threads on one sync::Arena under a generated schedule; half of them from the C02 generator with an exhausted cursor, half with fresh space left and mostly aligned / typed requests) with the same capacity and offset-alignment law at every allocation return, so that a compare-exchange retry after another thread moved the cursor is covered. Non-trivial (A) = a typed/aligned allocation served from a recycled segment, or at a cursor not aligned for T, or a zero-size request on a full arena; (B) = a compare-exchange failed (the threads interfered)"
    }
    fn assumptions() -> Vec<&'static str> {
        let mut v = <C03A as Prop>::assumptions();
        v.extend(B_ASSUME.iter().copied());
        v
    }
    fn simplify(c: &CaseC03) -> Vec<CaseC03> {
        match c {
            CaseC03::A(c) => simplify_case_a(c).into_iter().map(CaseC03::A).collect(),
            CaseC03::B(c) => simplify_b(c).into_iter().map(CaseC03::B).collect(),
        }
    }
}
